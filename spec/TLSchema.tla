------------------------------ MODULE TLSchema ------------------------------
(***************************************************************************)
(* The resolved schema ("instance graph") and the value domain of the TL   *)
(* codecs.  The graph comes from module SchemaData (written by the harness:*)
(* either exported from the implementation's kernel or produced by the     *)
(* independent schema generator).  Layout mirrors pure.TypeInstance*:      *)
(*                                                                         *)
(*  types[name] = [k: "prim"|"struct"|"union"|"array"|"dict", tag: 4 bytes,*)
(*    np: nat-parameter names, tl2, origin2, fn,                           *)
(*    fields: <<[n, t, bare, mask:[k,i,num], bit, na:<<[k,i,num]>>,        *)
(*               tl2bit, dom]>>, typedef, alias, unionElem, uidx,          *)
(*    res, resBare, resNa,  variants, vnames, elemNa, enum, maybe,         *)
(*    tuple, dyn, count, elem (a field record), prim, falseTag, trueTag]   *)
(*                                                                         *)
(* Values                                                                  *)
(*   nat/int/float = 4-byte tuple, long/double/uint64 = 8-byte tuple,      *)
(*   byte = 1-tuple, string = sequence of bytes, bool/bit = BOOLEAN,       *)
(*   struct = sequence of entries, one per field: the field value, or for  *)
(*   an optional field (TL1 field mask and/or TL2 presence bit) <<>> when   *)
(*   absent and <<value>> when present;  union = [i |-> variant (1..),     *)
(*   v |-> struct value]; array/dict = sequence of element values.         *)
(* env = values (4-byte tuples) of the instance's nat parameters.          *)
(***************************************************************************)
EXTENDS Integers, Sequences, FiniteSets, TLC, Json, Prim, SchemaData
\* SchemaData (written by the harness for every run) defines TY(n), the record
\* of instance n, as a CASE over per-instance constant definitions (TLC caches
\* those; loading JSON inside TLC re-parsed the file on every access), and
\* TopNames, the sequence of top-level instances to explore.

Z4 == <<0, 0, 0, 0>>
Z8 == <<0, 0, 0, 0, 0, 0, 0, 0>>
B4(n) == <<n % 256, (n \div 256) % 256, (n \div 65536) % 256, (n \div 16777216) % 256>>
IsSmall(b) == b[3] = 0 /\ b[4] = 0                  \* < 65536: usable as a size here
N4(b) == b[1] + 256 * b[2]                           \* value of a small 4-byte nat
BitSet(b, k) == (b[(k \div 8) + 1] \div Pow2(k % 8)) % 2 = 1
SetBit(b, k, on) == [b EXCEPT ![(k \div 8) + 1] =
                        IF on = BitSet(b, k) THEN @ ELSE IF on THEN @ + Pow2(k % 8) ELSE @ - Pow2(k % 8)]

(* optional entry: <<>> = absent, <<x>> = present with value x *)
Absent == <<>>
Pres(x) == <<x>>
IsP(e) == Len(e) = 1
PV(e) == e[1]

IsOpt(f) == f.mask.k # "none" \/ f.tl2bit >= 0       \* optional entry representation
NatMasked(f) == f.mask.k # "none"

(* the value carried by a present bit-like field (x:m.b?true, x:bit) is immaterial *)
FDefault(f, dflt) == IF f.isbit THEN <<>> ELSE dflt

(* value of the nat held by entry number i of a (partial) struct value *)
FieldNat(t, vals, i) ==
  IF IsOpt(t.fields[i]) THEN (IF IsP(vals[i]) THEN PV(vals[i]) ELSE Z4) ELSE vals[i]

ArgVal(a, env, t, vals) ==
  CASE a.k = "num"   -> a.num
    [] a.k = "param" -> env[a.i + 1]
    [] a.k = "field" -> FieldNat(t, vals, a.i + 1)

ArgsVal(as, env, t, vals) == [j \in 1..Len(as) |-> ArgVal(as[j], env, t, vals)]

(* is a TL1-masked field present, judged by the field mask value (TL1 rule) *)
MaskOn(f, env, t, vals) == BitSet(ArgVal(f.mask, env, t, vals), f.bit)

PrimSize(p) == CASE p \in {"uint32", "int32", "float32"} -> 4
                 [] p \in {"uint64", "int64", "float64"} -> 8
                 [] p = "byte" -> 1
                 [] OTHER -> 0

ArraySize(t, env) == IF t.dyn THEN env[1] ELSE t.count      \* 4-byte tuple

---------------------------------------------------------------------------
(* default (zero) value *)
RECURSIVE Default(_, _)
RECURSIVE DefFields(_, _, _, _)
DefFields(t, env, i, acc) ==
  IF i > Len(t.fields) THEN acc
  ELSE LET f == t.fields[i] IN
       DefFields(t, env, i + 1,
                 Append(acc, IF ~IsOpt(f) THEN Default(f.t, ArgsVal(f.na, env, t, acc))
                             ELSE IF NatMasked(f) /\ MaskOn(f, env, t, acc)      \* outer / constant mask already on
                             THEN Pres(FDefault(f, Default(f.t, ArgsVal(f.na, env, t, acc))))
                             ELSE Absent))
Default(tn, env) ==
  LET t == TY(tn) IN
  CASE t.k = "prim" ->
         (CASE PrimSize(t.prim) = 4 -> Z4
            [] PrimSize(t.prim) = 8 -> Z8
            [] PrimSize(t.prim) = 1 -> <<0>>
            [] t.prim = "string" -> <<>>
            [] OTHER -> FALSE)
    [] t.k = "struct" -> DefFields(t, env, 1, <<>>)
    [] t.k = "union"  -> [i |-> 1, v |-> Default(t.variants[1], ArgsVal(t.elemNa, env, t, <<>>))]
    [] t.k = "array"  ->
         IF ~t.tuple THEN <<>>
         ELSE LET sz == ArraySize(t, env) IN
              [j \in 1..(IF IsSmall(sz) THEN N4(sz) ELSE 0) |-> Default(t.elem.t, ArgsVal(t.elem.na, env, t, <<>>))]
    [] t.k = "dict"   -> <<>>

---------------------------------------------------------------------------
(* Fix: the valid value closest to v under env (TL1 validity: optional      *)
(* fields with a nat mask are present iff their bit is set; tuples have     *)
(* exactly their size).  Used after a nat field/parameter changed.          *)
RECURSIVE Fix(_, _, _)
RECURSIVE FixFields(_, _, _, _, _)
FixFields(t, env, v, i, acc) ==
  IF i > Len(t.fields) THEN acc
  ELSE LET f == t.fields[i]
           cenv == ArgsVal(f.na, env, t, acc)
           e == IF ~IsOpt(f) THEN Fix(f.t, cenv, v[i])
                ELSE IF NatMasked(f) THEN
                       (IF MaskOn(f, env, t, acc)
                        THEN (IF IsP(v[i]) THEN Pres(FDefault(f, Fix(f.t, cenv, PV(v[i])))) ELSE Pres(FDefault(f, Default(f.t, cenv))))
                        ELSE Absent)
                ELSE (IF IsP(v[i]) THEN Pres(FDefault(f, Fix(f.t, cenv, PV(v[i])))) ELSE Absent)
       IN FixFields(t, env, v, i + 1, Append(acc, e))
Fix(tn, env, v) ==
  LET t == TY(tn) IN
  CASE t.k = "prim"   -> v
    [] t.k = "struct" -> FixFields(t, env, v, 1, <<>>)
    [] t.k = "union"  -> [i |-> v.i, v |-> Fix(t.variants[v.i], ArgsVal(t.elemNa, env, t, <<>>), v.v)]
    [] t.k \in {"array", "dict"} ->
         LET cenv == ArgsVal(t.elem.na, env, t, <<>>)
             n == IF t.k = "array" /\ t.tuple
                  THEN (LET sz == ArraySize(t, env) IN IF IsSmall(sz) THEN N4(sz) ELSE 0)
                  ELSE Len(v)
         IN [j \in 1..n |-> IF j <= Len(v) THEN Fix(t.elem.t, cenv, v[j]) ELSE Default(t.elem.t, cenv)]

(* TL1 validity of a value (what the writers must accept) *)
RECURSIVE Valid1(_, _, _)
RECURSIVE ValidFields(_, _, _, _)
ValidFields(t, env, v, i) ==
  i > Len(t.fields) \/
  LET f == t.fields[i]
      cenv == ArgsVal(f.na, env, t, v)
  IN /\ IF ~IsOpt(f) THEN Valid1(f.t, cenv, v[i])
        ELSE IF NatMasked(f) /\ ~MaskOn(f, env, t, v) THEN TRUE      \* not written at all
        ELSE IF NatMasked(f) /\ ~IsP(v[i]) THEN FALSE                \* the mask announces a field the value lacks
        ELSE (IsP(v[i]) /\ ~f.isbit) => Valid1(f.t, cenv, PV(v[i]))
     /\ ValidFields(t, env, v, i + 1)
Valid1(tn, env, v) ==
  LET t == TY(tn) IN
  CASE t.k = "prim"   -> TRUE
    [] t.k = "struct" -> ValidFields(t, env, v, 1)
    [] t.k = "union"  -> Valid1(t.variants[v.i], ArgsVal(t.elemNa, env, t, <<>>), v.v)
    [] t.k \in {"array", "dict"} ->
         /\ (t.k = "array" /\ t.tuple) => (LET sz == ArraySize(t, env) IN IsSmall(sz) /\ Len(v) = N4(sz))
         /\ \A j \in 1..Len(v) : Valid1(t.elem.t, ArgsVal(t.elem.na, env, t, <<>>), v[j])
=============================================================================
