---------------------------- MODULE MC_RpcCalls ----------------------------
(***************************************************************************)
(* Bounded instance of RpcCalls for exhaustive TLC runs (safety +          *)
(* liveness), and -- with GenMode -- a generator of scenario shapes: the   *)
(* observation-only variable `hist` records the steps visible at the API   *)
(* boundary (who starts / cancels / times out / closes / cuts relative to  *)
(* handler progress); a finished behaviour is emitted and the harness      *)
(* forces that shape onto the real client and server with handler-side     *)
(* gates.  `hist` and the fault budget bookkeeping are hidden by VIEW.     *)
(***************************************************************************)
EXTENDS RpcCalls, Json

CONSTANTS
  NC1,          \* calls 1..NC1 belong to client "c1", the rest to "c2"
  MaxCuts,      \* fault budget: transport cuts
  MaxProxy,     \* fault budget: proxy mode switches
  MaxCloses,    \* budget: Close() calls (either side)
  TmoCalls,     \* calls that may carry a timeout
  FFCalls,      \* calls that may be fail-fast
  CancelCalls,  \* calls whose context may be cancelled by the caller
  Outs,         \* handler outcomes explored
  AllowShutdown,\* graceful Server.Shutdown() in the environment
  GenMode       \* TRUE: record hist, emit finished behaviours

MCOwnerOf(id) == IF id <= NC1 THEN "c1" ELSE "c2"
MCTake(id) == 1

VARIABLES hist, budget

mcvars == <<vars, hist, budget>>
View == <<vars, budget>>

MCInit == Init /\ hist = <<>> /\ budget = [cut |-> 0, proxy |-> 0, close |-> 0, fin |-> FALSE]

Ev(e) == hist' = IF GenMode THEN Append(hist, e) ELSE hist
E1(n, id) == [ev |-> n, id |-> id]

Finished == budget.fin

AllQuiet == /\ \A id \in CallIds : call[id].pc \in {"new", "done"}
            /\ \E id \in CallIds : call[id].pc = "done"
            /\ \A id \in CallIds : srv[id].st # "run"

MCNext ==
  /\ ~Finished
  /\ \/ Internal /\ UNCHANGED <<hist, budget>>
     \/ \E id \in CallIds : \E t, f \in BOOLEAN :
          /\ t => id \in TmoCalls
          /\ f => id \in FFCalls
          /\ Invoke(id, t, f) /\ Ev([ev |-> "start", id |-> id, cl |-> MCOwnerOf(id), tmo |-> t, ff |-> f]) /\ UNCHANGED budget
     \/ \E id \in CallIds : id \in CancelCalls /\ CtxCancel(id) /\ call[id].ctx = "live" /\ Ev(E1("cancel", id)) /\ UNCHANGED budget
     \/ \E id \in CallIds : Return(id) /\ Ev([ev |-> "ret", id |-> id, res |-> call'[id].rv.k, got |-> call'[id].rv.from]) /\ UNCHANGED budget
     \/ \E id \in CallIds : HandlerEnter(id) /\ Ev(E1("enter", id)) /\ UNCHANGED budget
     \/ \E id \in CallIds : \E o \in Outs : HandlerExit(id, o) /\ Ev([ev |-> "exit", id |-> id, out |-> o]) /\ UNCHANGED budget
     \/ \E c \in Clients : /\ budget.close < MaxCloses /\ CliCloseBegin(c) /\ Ev([ev |-> "close", side |-> c])
                           /\ budget' = [budget EXCEPT !.close = @ + 1]
     \/ \E c \in Clients : /\ budget.cut < MaxCuts /\ Cut(c) /\ Ev([ev |-> "cut", cl |-> c])
                           /\ budget' = [budget EXCEPT !.cut = @ + 1]
     \/ \E c \in Clients : \E m \in {"pass", "refuse"} :
                           /\ budget.proxy < MaxProxy /\ proxy[c] # m /\ SetProxy(c, m)
                           /\ Ev([ev |-> "proxy", cl |-> c, mode |-> m])
                           /\ budget' = [budget EXCEPT !.proxy = @ + 1]
     \/ AllowShutdown /\ SrvShutdown /\ Ev([ev |-> "shutdown", side |-> "server"]) /\ UNCHANGED budget
     \/ /\ budget.close < MaxCloses /\ SrvCloseBegin /\ Ev([ev |-> "close", side |-> "server"])
        /\ budget' = [budget EXCEPT !.close = @ + 1]
     \/ /\ GenMode /\ AllQuiet
        /\ budget' = [budget EXCEPT !.fin = TRUE]
        /\ hist' = hist
        /\ UNCHANGED vars

MCSpec == MCInit /\ [][MCNext]_mcvars /\ Fairness

(* scenario shapes for the harness *)
Emit == Finished => PrintT(ToJson(<<"@@", [hist |-> hist]>>))

(* the action properties of RpcCalls refer to vars only *)
=============================================================================
