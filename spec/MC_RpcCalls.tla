---------------------------- MODULE MC_RpcCalls ----------------------------
(***************************************************************************)
(* Bounded instance of RpcCalls for exhaustive TLC runs (safety +          *)
(* liveness), and -- with GenMode -- a generator of scenario shapes: the   *)
(* observation-only variable `hist` records the steps visible at the API   *)
(* boundary (who starts / cancels / times out / closes / cuts relative to  *)
(* handler progress); a finished behaviour is emitted and the harness      *)
(* forces that shape onto the real client and server with handler-side     *)
(* gates.  `hist` and the fault budget bookkeeping are hidden by VIEW.     *)
(***************************************************************************)
EXTENDS RpcCalls, Json

CONSTANTS
  NC1,          \* calls 1..NC1 belong to client "c1", the rest to "c2"
  MaxCuts,      \* fault budget: transport cuts
  MaxProxy,     \* fault budget: proxy mode switches
  MaxCloses,    \* budget: Close() calls (either side)
  TmoCalls,     \* calls that may carry a timeout
  FFCalls,      \* calls that may be fail-fast
  CancelCalls,  \* calls whose context may be cancelled by the caller
  Outs,         \* handler outcomes explored
  AllowShutdown,\* graceful Server.Shutdown() in the environment
  GenMode       \* TRUE: record hist, emit finished behaviours

MCOwnerOf(id) == IF id <= NC1 THEN "c1" ELSE "c2"
MCTake(id) == 1

VARIABLES hist, budget

mcvars == <<vars, hist, budget>>
View == <<vars, budget>>

MCInit == Init /\ hist = <<>> /\ budget = [cut |-> 0, proxy |-> 0, close |-> 0, fin |-> FALSE]

Ev(e) == hist' = IF GenMode THEN Append(hist, e) ELSE hist
E1(n, id) == [ev |-> n, id |-> id]

Finished == budget.fin

AllQuiet == /\ pend = {}
            /\ \A id \in CallIds : call[id].pc \in {"new", "done"}
            /\ \E id \in CallIds : call[id].pc = "done"
            /\ \A id \in CallIds : srv[id].st # "run"

(* One wrapper per action of RpcCalls, so that TLC reports coverage per action. *)
Go == ~Finished
Same == UNCHANGED <<hist, budget>>
ICtxDeadline(id) == Go /\ CtxDeadline(id) /\ Same
ISetupExpired(id) == Go /\ SetupExpired(id) /\ Same
ISetupCall(id) == Go /\ SetupCall(id) /\ Same
ICancelCall(id) == Go /\ CancelCall(id) /\ Same
IAcquireMem(id) == Go /\ AcquireMem(id) /\ Same
IRecvAbort(id) == Go /\ RecvAbort(id) /\ Same
IGetWorker(id) == Go /\ GetWorker(id) /\ Same
IHandlerSkipExpired(id) == Go /\ HandlerSkipExpired(id) /\ Same
ISendResponse(id) == Go /\ SendResponse(id) /\ Same
IOrphanRecv(id) == Go /\ OrphanRecv(id) /\ Same
IOrphanDrop(id) == Go /\ OrphanDrop(id) /\ Same
IBodyReadDeadline(id) == Go /\ BodyReadDeadline(id) /\ Same
ISendFromWriteQ(c) == Go /\ SendFromWriteQ(c) /\ Same
IClientRecv(c) == Go /\ ClientRecv(c) /\ Same
IConnDrop(c) == Go /\ ConnDrop(c) /\ Same
IMassCancel(c) == Go /\ MassCancel(c) /\ Same
IConnectFail(c) == Go /\ ConnectFail(c) /\ Same
IConnect(c) == Go /\ Connect(c) /\ Same
IRecvHdr(c) == Go /\ RecvHdr(c) /\ Same
IServerSend(c) == Go /\ ServerSend(c) /\ Same
IServerSendLetsFin(c) == Go /\ ServerSendLetsFin(c) /\ Same
ICliCloseDo(c) == Go /\ CliCloseDo(c) /\ Same
ICutDo(c) == Go /\ CutDo(c) /\ Same
IProxyDo(c) == Go /\ ProxyDo(c) /\ Same
ISrvShutdownDo == Go /\ SrvShutdownDo /\ Same
ISrvCloseDo == Go /\ SrvCloseDo /\ Same
ISrvConnStop(c) == Go /\ SrvConnStop(c) /\ Same

VInvoke(id, t, f) ==
  /\ Go /\ (t => id \in TmoCalls) /\ (f => id \in FFCalls)
  /\ Invoke(id, t, f) /\ Ev([ev |-> "start", id |-> id, cl |-> MCOwnerOf(id), tmo |-> t, ff |-> f]) /\ UNCHANGED budget
VCtxCancel(id) == Go /\ id \in CancelCalls /\ call[id].ctx = "live" /\ call[id].pc \in {"inv", "wait"} /\ CtxCancel(id) /\ Ev(E1("cancel", id)) /\ UNCHANGED budget
VReturnResult(id) == Go /\ ReturnResult(id) /\ Ev([ev |-> "ret", id |-> id, res |-> call'[id].rv.k, got |-> call'[id].rv.from]) /\ UNCHANGED budget
VReturnPending(id) == Go /\ ReturnPending(id) /\ Ev([ev |-> "ret", id |-> id, res |-> call'[id].rv.k, got |-> call'[id].rv.from]) /\ UNCHANGED budget
VHandlerEnter(id) == Go /\ HandlerEnter(id) /\ Ev(E1("enter", id)) /\ UNCHANGED budget
VHandlerExit(id, o) == Go /\ HandlerExit(id, o) /\ Ev([ev |-> "exit", id |-> id, out |-> o]) /\ UNCHANGED budget
VCliCloseBegin(c) == /\ Go /\ budget.close < MaxCloses /\ CliCloseBegin(c) /\ Ev([ev |-> "close", side |-> c])
                     /\ budget' = [budget EXCEPT !.close = @ + 1]
VCut(c) == /\ Go /\ budget.cut < MaxCuts /\ ~SyncPending /\ Cut(c) /\ Ev([ev |-> "cut", cl |-> c])
           /\ budget' = [budget EXCEPT !.cut = @ + 1]
VSetProxy(c, m) == /\ Go /\ budget.proxy < MaxProxy /\ proxy[c] # m /\ ~SyncPending /\ SetProxy(c, m)
                   /\ Ev([ev |-> "proxy", cl |-> c, mode |-> m])
                   /\ budget' = [budget EXCEPT !.proxy = @ + 1]
VSrvShutdown == Go /\ AllowShutdown /\ SrvShutdown /\ Ev([ev |-> "shutdown", side |-> "server"]) /\ UNCHANGED budget
VSrvCloseBegin == /\ Go /\ budget.close < MaxCloses /\ SrvCloseBegin /\ Ev([ev |-> "close", side |-> "server"])
                  /\ budget' = [budget EXCEPT !.close = @ + 1]
GenFinish == /\ Go /\ GenMode /\ AllQuiet
             /\ budget' = [budget EXCEPT !.fin = TRUE]
             /\ hist' = hist
             /\ UNCHANGED vars

MCNext ==
  \/ \E id \in CallIds :
        \/ ICtxDeadline(id)
        \/ ISetupExpired(id)
        \/ ISetupCall(id)
        \/ ICancelCall(id)
        \/ IAcquireMem(id)
        \/ IRecvAbort(id)
        \/ IGetWorker(id)
        \/ IHandlerSkipExpired(id)
        \/ ISendResponse(id)
        \/ IOrphanRecv(id)
        \/ IOrphanDrop(id)
        \/ IBodyReadDeadline(id)
        \/ \E t, f \in BOOLEAN : VInvoke(id, t, f)
        \/ VCtxCancel(id) \/ VReturnResult(id) \/ VReturnPending(id) \/ VHandlerEnter(id)
        \/ \E o \in Outs : VHandlerExit(id, o)
  \/ \E c \in Clients :
        \/ ISendFromWriteQ(c)
        \/ IClientRecv(c)
        \/ IConnDrop(c)
        \/ IMassCancel(c)
        \/ IConnectFail(c)
        \/ IConnect(c)
        \/ IRecvHdr(c)
        \/ IServerSend(c)
        \/ IServerSendLetsFin(c)
        \/ ISrvConnStop(c)
        \/ ICliCloseDo(c) \/ ICutDo(c) \/ IProxyDo(c)
        \/ VCliCloseBegin(c) \/ VCut(c)
        \/ \E m \in {"pass", "refuse", "hold"} : VSetProxy(c, m)
  \/ ISrvShutdownDo \/ ISrvCloseDo
  \/ VSrvShutdown \/ VSrvCloseBegin \/ GenFinish

MCSpec == MCInit /\ [][MCNext]_mcvars /\ Fairness

(* scenario shapes for the harness *)
Emit == Finished => PrintT(ToJson(<<"@@", [hist |-> hist]>>))

(* the action properties of RpcCalls refer to vars only *)
=============================================================================
