INIT Init
NEXT Next
INVARIANT EventOK
CHECK_DEADLOCK FALSE
