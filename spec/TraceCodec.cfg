CONSTANTS
  Sanity = FALSE
  MaxLen = 2
  LongStrings = {}
INIT Init
NEXT Next
INVARIANTS EventOK Emit
CHECK_DEADLOCK FALSE
