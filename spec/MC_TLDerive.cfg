CONSTANTS
  MaxW = @MAXW@
  MaxCombs = @MAXCOMBS@
  MutW = @MUTW@
  Sem = @SEM@
  SemNames = @SEMNAMES@
  Focus = @FOCUS@
  LayoutSel = @LAYOUTS@
  LowerNames <- LowerNamesMC
  LongNamesLower = FALSE
INIT Init
NEXT Next
INVARIANTS Emit LaidOK DerivedOK
CHECK_DEADLOCK FALSE
