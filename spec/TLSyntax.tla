------------------------------ MODULE TLSyntax ------------------------------
(***************************************************************************)
(* Concrete syntax of TL1 (and the lexer shared with TL2).                 *)
(*                                                                         *)
(*  1. Lex      - the lexer over character classes: token kinds, byte      *)
(*                offsets, line/column, the first error, the per-language  *)
(*                token validation.  Recombination (token texts tile the   *)
(*                input) is a theorem of the model, checked by TLC.        *)
(*  2. AST      - the source AST of a TL1 schema (records, see below).      *)
(*  3. Toks     - Render: AST x layout -> token sequence (significant       *)
(*                tokens and separators).                                  *)
(*  4. Canon    - the canonical one-line form whose CRC32 is the implicit  *)
(*                tag; ListingLine - a line of the canonical listing.      *)
(*  5. Print    - the text written by the schema printer (TL.String).      *)
(*  6. Mutate   - edits of token sequences for the totality properties.    *)
(*                                                                         *)
(* Texts are sequences of lexemes (TLC strings are atomic); the harness    *)
(* joins them.  Numbers are pairs <<hi, lo>> of 16-bit halves because      *)
(* TLC integers are 32-bit signed.  CRC32 itself is computed by the        *)
(* harness (hash/crc32) over CanonText.                                    *)
(***************************************************************************)
EXTENDS Integers, Sequences, FiniteSets, TLC, Json

Min(S) == CHOOSE x \in S : \A y \in S : x <= y
Max(S) == CHOOSE x \in S : \A y \in S : x >= y

RECURSIVE JoinR(_, _, _)
JoinR(ws, sep, i) == IF i > Len(ws) THEN ""
                     ELSE IF i = Len(ws) THEN ws[i]
                     ELSE ws[i] \o sep \o JoinR(ws, sep, i + 1)
Join(ws, sep) == JoinR(ws, sep, 1)

RECURSIVE FlatR(_, _)
FlatR(ss, i) == IF i > Len(ss) THEN <<>> ELSE ss[i] \o FlatR(ss, i + 1)
Flat(ss) == FlatR(ss, 1)              \* concatenation of a sequence of sequences

---------------------------------------------------------------------------
(* 1. THE LEXER over character classes.                                    *)
(* A character class is a string naming a concrete byte sequence known to  *)
(* the harness: single ASCII characters stand for themselves; "SP" "TAB"   *)
(* "LF" "CR"; "a" = a lower-case hex letter, "g" = a lower-case non-hex    *)
(* letter, "T" = an upper-case letter, "Type" = the four letters T,y,p,e,  *)
(* "0" = a digit, "h7" = seven digits, "U2" = a valid two-byte UTF-8       *)
(* character, "BAD" = the byte 0x80 (invalid UTF-8), "$" = an ASCII        *)
(* character outside the language, "TYPES"/"FUNCS" = the section markers.  *)

Lower   == {"a", "g"}
Upper   == {"T", "Type"}
Digit   == {"0", "h7"}
Letter  == Lower \cup Upper
IdentCh == Letter \cup Digit \cup {"_"}
HexCh   == {"a", "0", "h7"}
Punct1  == {"(", ")", "[", "]", "{", "}", ">", ".", "+", "*", "!", ":", ";", "SP", "TAB", "?", "%", ",", "|"}

AllChars == IdentCh \cup Punct1 \cup {"CR", "LF", "=", "<", "@", "/", "-", "#", "$", "U2", "BAD", "TYPES", "FUNCS"}

BLen(c) == CASE c = "TYPES" -> 11 [] c = "FUNCS" -> 15 [] c = "Type" -> 4
             [] c = "h7" -> 7 [] c = "U2" -> 2 [] OTHER -> 1

RECURSIVE BSum(_, _, _)
BSum(cs, i, j) == IF i >= j THEN 0 ELSE BLen(cs[i]) + BSum(cs, i + 1, j)   \* bytes of cs[i..j-1]

RunEnd(cs, i, S) == Min({j \in i..(Len(cs) + 1) : j = Len(cs) + 1 \/ cs[j] \notin S})
NameEnd(cs, i) == IF i <= Len(cs) /\ cs[i] \in Letter THEN RunEnd(cs, i + 1, IdentCh) ELSE i   \* nameIdent
At(cs, i) == IF i <= Len(cs) THEN cs[i] ELSE "EOF"

T1(k, j)          == [k |-> k, j |-> j, n |-> -1, err |-> FALSE]    \* n = -1: byte length of cs[i..j-1]
E1(j)             == [k |-> "undef", j |-> j, n |-> -1, err |-> TRUE]
E1n(j, n)         == [k |-> "undef", j |-> j, n |-> n, err |-> TRUE]

(* one token starting at character i; lang \in {1, 2} *)
Step(cs, i, lang) ==
  LET c == cs[i] IN
  CASE c \in Punct1 -> T1(c, i + 1)
    [] c = "CR" -> IF At(cs, i + 1) = "LF" THEN T1("nl", i + 2) ELSE E1(i + 1)
    [] c = "LF" -> T1("nl", i + 1)
    [] c = "=" -> IF At(cs, i + 1) = ">" THEN T1("=>", i + 2) ELSE T1("=", i + 1)
    [] c = "<" -> IF lang = 2 /\ At(cs, i + 1) = "=" /\ At(cs, i + 2) = ">" THEN T1("<=>", i + 3) ELSE T1("<", i + 1)
    [] c = "@" -> LET j == NameEnd(cs, i + 1) IN
                  IF j = i + 1 \/ cs[i + 1] \notin Lower THEN E1(j) ELSE T1("ann", j)
    [] c = "/" -> IF At(cs, i + 1) = "/"
                    THEN T1("cmt", RunEnd(cs, i, AllChars \ {"CR", "LF", "BAD"}))   \* stops before CR / LF / an invalid byte
                  ELSE IF At(cs, i + 1) = "*" THEN E1(i + 2)
                  ELSE E1(i + 1)
    [] c = "-" -> T1("-", i + 1)
    [] c = "TYPES" -> T1("sec_t", i + 1)
    [] c = "FUNCS" -> T1("sec_f", i + 1)
    [] c = "#" -> LET j == RunEnd(cs, i + 1, IdentCh) IN
                  IF j = i + 1 THEN T1("#", j)
                  ELSE IF (\A k \in (i + 1)..(j - 1) : cs[k] \in HexCh) /\ BSum(cs, i + 1, j) = 8 THEN T1("tag", j)
                  ELSE E1(j)
    [] c = "_" -> IF lang = 2 THEN LET j == NameEnd(cs, i + 1) IN IF j = i + 1 THEN T1("_", j) ELSE T1("dep", j)
                  ELSE E1(i + 1)
    [] c \in Digit -> LET j == RunEnd(cs, i, IdentCh) IN
                      IF \A k \in i..(j - 1) : cs[k] \in Digit THEN T1("num", j) ELSE E1(j)
    [] c \in Letter ->
         LET j == NameEnd(cs, i) IN
         IF lang = 2 /\ j = i + 1 /\ c = "Type" THEN T1("Type", j)
         ELSE IF At(cs, j) = "." /\ NameEnd(cs, j + 1) > j + 1
              THEN LET j2 == NameEnd(cs, j + 1) IN
                   IF c \notin Lower THEN E1(j2)
                   ELSE IF cs[j + 1] \in Lower THEN T1("lcns", j2) ELSE T1("ucns", j2)
         ELSE IF c \in Lower THEN T1("lc", j) ELSE T1("uc", j)
    [] OTHER -> E1n(i + 1, 1)           \* "$", "BAD", "U2": one BYTE is consumed

IllegalKinds(lang) == IF lang = 1 THEN {"|", "_"}
                      ELSE {"{", "}", "!", "(", ")", "+", "*", "%", "sec_t", "sec_f"}

Tok(k, b, e, l, c) == [k |-> k, b |-> b, e |-> e, l |-> l, c |-> c]

RECURSIVE LexFrom(_, _, _, _, _, _)
LexFrom(cs, i, off, line, col, lang) ==
  IF i > Len(cs) THEN [toks |-> <<Tok("eof", off, off, line, col)>>, err |-> <<>>]
  ELSE LET s == Step(cs, i, lang)
           n == IF s.n >= 0 THEN s.n ELSE BSum(cs, i, s.j)
           t == Tok(s.k, off, off + n, line, col)
       IN IF s.err THEN [toks |-> <<t>>, err |-> <<t>>]
          ELSE LET r == LexFrom(cs, s.j, off + n, IF s.k = "nl" THEN line + 1 ELSE line,
                                IF s.k = "nl" THEN 1 ELSE col + n, lang)
               IN [toks |-> <<t>> \o r.toks, err |-> r.err]

(* the complete lexer: tokens, then per-language validation of token kinds *)
Lex(cs, lang) ==
  LET r == LexFrom(cs, 1, 0, 1, 1, lang) IN
  IF r.err # <<>> THEN [toks |-> r.toks, err |-> r.err, class |-> "lex"]
  ELSE LET bad == {i \in 1..Len(r.toks) : r.toks[i].k \in IllegalKinds(lang)} IN
       IF bad = {} THEN [toks |-> r.toks, err |-> <<>>, class |-> ""]
       ELSE [toks |-> SubSeq(r.toks, 1, Min(bad)), err |-> <<r.toks[Min(bad)]>>, class |-> "illegal"]

TextBytes(cs) == BSum(cs, 1, Len(cs) + 1)

(* Recombination: tokens tile the consumed prefix; with no lexical error they tile the text *)
Tiles(toks) == /\ toks[1].b = 0
               /\ \A i \in 1..(Len(toks) - 1) : toks[i].e = toks[i + 1].b
               /\ \A i \in 1..Len(toks) : toks[i].b <= toks[i].e
LexRecombines(cs, r) ==          \* r = Lex(cs, lang)
  /\ Tiles(r.toks)
  /\ r.toks[Len(r.toks)].e <= TextBytes(cs)
  /\ (r.class = "" => r.toks[Len(r.toks)].k = "eof" /\ r.toks[Len(r.toks)].e = TextBytes(cs))
  /\ (r.class = "lex" => r.toks[Len(r.toks)].k = "undef" /\ r.err = <<r.toks[Len(r.toks)]>>)
  /\ \A i \in 1..Len(r.toks) : r.toks[i].l >= 1 /\ r.toks[i].c >= 1

---------------------------------------------------------------------------
(* numbers: <<hi, lo>>, value hi * 65536 + lo *)
N(v)    == <<v \div 65536, v % 65536>>
NMax    == <<65535, 65535>>                 \* 4294967295
NOver   == <<65536, 0>>                     \* 4294967296, not a uint32
NAdd(a, b) == LET lo == a[2] + b[2] IN <<a[1] + b[1] + (lo \div 65536), lo % 65536>>
NGeMax(a) == a[1] > 65535 \/ (a[1] = 65535 /\ a[2] = 65535)     \* a >= 2^32 - 1
RECURSIVE NSumR(_, _)
NSumR(ns, i) == IF i > Len(ns) THEN <<0, 0>> ELSE NAdd(ns[i], NSumR(ns, i + 1))
NSum(ns) == NSumR(ns, 1)
RECURSIVE DecR(_, _)
DecR(hi, lo) == IF hi = 0 /\ lo = 0 THEN ""
                ELSE LET t == (hi % 10) * 65536 + lo IN DecR(hi \div 10, t \div 10) \o ToString(t % 10)
Dec(n) == IF n[1] = 0 /\ n[2] = 0 THEN "0" ELSE DecR(n[1], n[2])
(* an arithmetic expression (a sum of literals) is accepted iff every literal is a uint32 and, *)
(* when there is at least one '+', the sum stays below 2^32 - 1                                 *)
ArithOK(ns) == /\ \A i \in 1..Len(ns) : ns[i][1] <= 65535
               /\ (Len(ns) > 1 => ~NGeMax(NSum(ns)))

---------------------------------------------------------------------------
(* 2. THE SOURCE AST (shape identical to the driver's neutral JSON).       *)
(*  Type  = [b, ns, nm, as : Seq(Arg)]      "#" is [nm |-> "#"]            *)
(*  Arg   = [ar : Seq(Num), t : Seq(Type)]  exactly one of them non-empty  *)
(*  Field = [n, m : Seq([n, bit]), ex, rep : Seq(Rep), t : Seq(Type)]      *)
(*  Rep   = [sk \in {"none","name","ar"}, sn, sa : Seq(Num), body]         *)
(*  Comb  = [mods, ns, nm, tag, ta : Seq([n, nat]), bi, fs, fn,            *)
(*           dns, dnm, da, res : Seq(Type)]                                *)

Ty(b, ns, nm, as) == [b |-> b, ns |-> ns, nm |-> nm, as |-> as]
Atom(ns, nm)      == Ty(FALSE, ns, nm, <<>>)
Hash              == Atom("", "#")
ArgT(t)           == [ar |-> <<>>, t |-> <<t>>]
ArgN(ns)          == [ar |-> ns, t |-> <<>>]
Fld(n, m, ex, t)  == [n |-> n, m |-> m, ex |-> ex, rep |-> <<>>, t |-> <<t>>]
FldRep(n, m, ex, sk, sn, sa, body) ==
  [n |-> n, m |-> m, ex |-> ex, rep |-> <<[sk |-> sk, sn |-> sn, sa |-> sa, body |-> body]>>, t |-> <<>>]
Mask(n, bit)      == <<[n |-> n, bit |-> bit]>>

QName(ns, nm) == IF ns = "" THEN nm ELSE ns \o "." \o nm

(* arithmetic replaced by its value (the AST the parser returns for the folded spelling) *)
RECURSIVE FoldT(_), FoldF(_)
FoldArg(a) == IF a.ar # <<>> THEN ArgN(<<NSum(a.ar)>>) ELSE ArgT(FoldT(a.t[1]))
FoldT(t) == [t EXCEPT !.as = [i \in 1..Len(t.as) |-> FoldArg(t.as[i])]]
FoldF(f) == IF f.rep = <<>> THEN [f EXCEPT !.t = <<FoldT(f.t[1])>>]
            ELSE LET r == f.rep[1] IN
                 [f EXCEPT !.rep = <<[r EXCEPT !.sa = IF r.sk = "ar" THEN <<NSum(r.sa)>> ELSE <<>>,
                                               !.body = [i \in 1..Len(r.body) |-> FoldF(r.body[i])]]>>]
FoldC(c) == [c EXCEPT !.fs = [i \in 1..Len(c.fs) |-> FoldF(c.fs[i])],
                      !.res = [i \in 1..Len(c.res) |-> FoldT(c.res[i])]]

---------------------------------------------------------------------------
(* 3. RENDER.  A token is [k, s]: kind and lexeme.                          *)
(* Layout = [sep, app, par, bin, ar, arrow, lead]                           *)
(*   sep   \in {"min","sp","tab","nl","crlf","cmt","mix"}  separators       *)
(*   app   \in {"paren","angle"}    (T a b)  vs  T<a,b>                     *)
(*   par   \in BOOLEAN              redundant parentheses around types      *)
(*   bin   \in BOOLEAN              (%T a) instead of %(T a)                 *)
(*   ar    \in {"plain","paren","fold","lz"}  1+2 | (1+2) | 3 | 01+02       *)
(*            "lp" (1)+(2) | "rp" 1+(2+3) | "pp" ((1+2))   parenthesised     *)
(*            operands, nested once                                         *)
(*   arrow \in BOOLEAN              a function is marked by => instead of   *)
(*                                  a ---functions--- section               *)
(*   lead  \in BOOLEAN              explicit ---types--- at the start       *)

K(k, s) == [k |-> k, s |-> s]
P(s)    == K(s, s)                         \* punctuation: the kind is the lexeme
(* TLC strings are atomic: whether a name starts with a lower-case letter is given by the set LowerNames *)
(* (the model's name pools, or - for recorded traces - the names of the trace classified by the harness) *)
(* LongNamesLower = TRUE: names longer than 20 characters are paddings (made by a model) of a lower-case name   *)
CONSTANTS LowerNames, LongNamesLower
LowerStart(nm) == nm \in LowerNames \/ (LongNamesLower /\ Len(nm) > 20)
NameTok(ns, nm) == IF ns = "" THEN K(IF LowerStart(nm) THEN "lc" ELSE "uc", nm)
                   ELSE K(IF LowerStart(nm) THEN "lcns" ELSE "ucns", ns \o "." \o nm)
VarTok(nm) == K(IF LowerStart(nm) THEN "lc" ELSE "uc", nm)
NumTok(n, lay) == K("num", IF lay.ar = "lz" THEN "0" \o Dec(n) ELSE Dec(n))

RECURSIVE PlusR(_, _, _)
PlusR(ns, lay, i) == IF i > Len(ns) THEN <<>>
                     ELSE (IF i > 1 THEN <<P("+")>> ELSE <<>>) \o <<NumTok(ns[i], lay)>> \o PlusR(ns, lay, i + 1)
RECURSIVE EachParenR(_, _, _)
EachParenR(ns, lay, i) == IF i > Len(ns) THEN <<>>
                          ELSE (IF i > 1 THEN <<P("+")>> ELSE <<>>) \o <<P("("), NumTok(ns[i], lay), P(")")>> \o EachParenR(ns, lay, i + 1)
ArithToks(ns, lay) ==
  IF lay.ar = "fold" THEN <<NumTok(NSum(ns), lay)>>
  ELSE IF lay.ar = "lp" THEN EachParenR(ns, lay, 1)
  ELSE IF lay.ar = "rp" THEN (IF Len(ns) = 1 THEN <<P("("), NumTok(ns[1], lay), P(")")>>
                              ELSE <<NumTok(ns[1], lay), P("+"), P("(")>> \o PlusR(SubSeq(ns, 2, Len(ns)), lay, 1) \o <<P(")")>>)
  ELSE IF lay.ar = "pp" THEN <<P("("), P("(")>> \o PlusR(ns, lay, 1) \o <<P(")"), P(")")>>
  ELSE IF lay.ar = "paren" \/ (lay.par /\ Len(ns) > 1) THEN <<P("(")>> \o PlusR(ns, lay, 1) \o <<P(")")>>
  ELSE PlusR(ns, lay, 1)

(* ctx: "field" | "arg" (argument of a parenthesised application) | "angle" | "top" (function result) *)
RECURSIVE TypeToks(_, _, _), ArgsToks(_, _, _, _)
ArgToks(a, lay, ctx) == IF a.ar # <<>> THEN ArithToks(a.ar, lay) ELSE TypeToks(a.t[1], lay, ctx)
ArgsToks(as, lay, ctx, i) ==
  IF i > Len(as) THEN <<>>
  ELSE (IF ctx = "angle" /\ i > 1 THEN <<P(",")>> ELSE <<>>) \o ArgToks(as[i], lay, ctx) \o ArgsToks(as, lay, ctx, i + 1)
TypeToks(t, lay, ctx) ==
  LET pc == IF t.b THEN <<P("%")>> ELSE <<>>
      nm == IF t.nm = "#" THEN <<K("#", "#")>> ELSE <<NameTok(t.ns, t.nm)>>
      wrap(x) == IF lay.par /\ ctx # "top" THEN <<P("(")>> \o x \o <<P(")")>> ELSE x
      style == IF lay.app = "mix" THEN (IF ctx = "angle" THEN "paren" ELSE "angle") ELSE lay.app
  IN
  IF t.as = <<>> THEN wrap(pc \o nm)
  ELSE IF style = "angle" THEN wrap(pc \o nm \o <<P("<")>> \o ArgsToks(t.as, lay, "angle", 1) \o <<P(">")>>)
  ELSE IF ctx = "top" \/ (ctx = "angle" /\ ~lay.par)
       THEN pc \o nm \o ArgsToks(t.as, lay, "arg", 1)          \* application without brackets (none allowed at the top of a result)
  ELSE IF t.b /\ lay.bin THEN wrap(<<P("(")>> \o pc \o nm \o ArgsToks(t.as, lay, "arg", 1) \o <<P(")")>>)
  ELSE wrap(pc \o <<P("(")>> \o nm \o ArgsToks(t.as, lay, "arg", 1) \o <<P(")")>>)

RECURSIVE FieldToks(_, _), FieldsToks(_, _, _)
FieldToks(f, lay) ==
     (IF f.n # "" THEN <<VarTok(f.n), P(":")>> ELSE <<>>)
  \o (IF f.m # <<>> THEN <<VarTok(f.m[1].n), P("."), NumTok(f.m[1].bit, lay), P("?")>> ELSE <<>>)
  \o (IF f.ex THEN <<P("!")>> ELSE <<>>)
  \o (IF f.rep = <<>> THEN TypeToks(f.t[1], lay, "field")
      ELSE LET r == f.rep[1] IN
              (CASE r.sk = "none" -> <<>>
                 [] r.sk = "name" -> <<VarTok(r.sn), P("*")>>
                 [] r.sk = "ar"   -> ArithToks(r.sa, lay) \o <<P("*")>>)
           \o <<P("[")>> \o FieldsToks(r.body, lay, 1) \o <<P("]")>>)
FieldsToks(fs, lay, i) == IF i > Len(fs) THEN <<>> ELSE FieldToks(fs[i], lay) \o FieldsToks(fs, lay, i + 1)

CombToks(c, lay, arrow) ==
     [i \in 1..Len(c.mods) |-> K("ann", "@" \o c.mods[i])]
  \o <<NameTok(c.ns, c.nm)>>
  \o (IF c.tag # "" THEN <<K("tag", "#" \o c.tag)>> ELSE <<>>)
  \o Flat([i \in 1..Len(c.ta) |-> <<P("{"), VarTok(c.ta[i].n), P(":"),
                                    IF c.ta[i].nat THEN K("#", "#") ELSE K("uc", "Type"), P("}")>>])
  \o (IF c.bi THEN <<P("?")>> ELSE FieldsToks(c.fs, lay, 1))
  \o <<IF arrow THEN P("=>") ELSE P("=")>>
  \o (IF c.fn THEN TypeToks(c.res[1], lay, "top")
      ELSE <<NameTok(c.dns, c.dnm)>> \o [i \in 1..Len(c.da) |-> VarTok(c.da[i])])
  \o <<P(";")>>

(* a schema is a sequence of combinators; sections are inserted where the kind changes *)
RECURSIVE SchemaToksR(_, _, _, _)
SchemaToksR(cs, lay, i, inFn) ==
  IF i > Len(cs) THEN <<>>
  ELSE LET c == cs[i] IN
       IF c.fn /\ ~inFn /\ lay.arrow THEN CombToks(c, lay, TRUE) \o SchemaToksR(cs, lay, i + 1, FALSE)
       ELSE IF c.fn /\ ~inFn THEN <<K("sec_f", "---functions---")>> \o CombToks(c, lay, FALSE) \o SchemaToksR(cs, lay, i + 1, TRUE)
       ELSE IF ~c.fn /\ inFn THEN <<K("sec_t", "---types---")>> \o CombToks(c, lay, FALSE) \o SchemaToksR(cs, lay, i + 1, FALSE)
       ELSE CombToks(c, lay, FALSE) \o SchemaToksR(cs, lay, i + 1, inFn)
SigToks(cs, lay) == (IF lay.lead THEN <<K("sec_t", "---types---")>> ELSE <<>>) \o SchemaToksR(cs, lay, 1, FALSE)

(* separators *)
WordEnd   == {"lc", "uc", "lcns", "ucns", "num", "tag", "ann", "#"}     \* a following word character would extend the token
WordStart == {"lc", "uc", "lcns", "ucns", "num"}
NeedSep(a, b) == a.k \in WordEnd /\ b.k \in WordStart
SepTok(kind) == CASE kind = "sp"   -> <<K("SP", " ")>>
                  [] kind = "sp2"  -> <<K("SP", " "), K("SP", " ")>>
                  [] kind = "tab"  -> <<K("TAB", "\t")>>
                  [] kind = "nl"   -> <<K("nl", "\n")>>
                  [] kind = "crlf" -> <<K("nl", "\r\n")>>
                  [] kind = "cmt"  -> <<K("SP", " "), K("cmt", "// c ; = [ \t%"), K("nl", "\n")>>
MixKinds == <<"sp", "nl", "tab", "cmt", "sp2", "crlf", "sp">>
SepFor(lay, i, a, b) ==
  CASE lay.sep = "min" -> IF NeedSep(a, b) THEN SepTok("sp") ELSE <<>>
    [] lay.sep = "mix" -> IF NeedSep(a, b) \/ i % 3 # 0 THEN SepTok(MixKinds[(i % 7) + 1]) ELSE <<>>
    [] OTHER -> SepTok(lay.sep)
RECURSIVE WithSepsR(_, _, _)
WithSepsR(sig, lay, i) ==
  IF i > Len(sig) THEN <<>>
  ELSE IF i = Len(sig) THEN <<sig[i]>> \o (IF lay.sep \in {"min", "sp"} THEN <<>> ELSE SepTok(IF lay.sep = "mix" THEN "cmt" ELSE lay.sep))
  ELSE <<sig[i]>> \o SepFor(lay, i, sig[i], sig[i + 1]) \o WithSepsR(sig, lay, i + 1)
WithSeps(sig, lay) == WithSepsR(sig, lay, 1)
Render(cs, lay) == WithSeps(SigToks(cs, lay), lay)

(* byte offsets of a token sequence (ASCII lexemes: Len = bytes) *)
RECURSIVE OffsR(_, _, _)
OffsR(toks, i, off) == IF i > Len(toks) THEN <<>> ELSE <<off>> \o OffsR(toks, i + 1, off + Len(toks[i].s))
Offs(toks) == OffsR(toks, 1, 0)
RECURSIVE TextLenR(_, _)
TextLenR(toks, i) == IF i > Len(toks) THEN 0 ELSE Len(toks[i].s) + TextLenR(toks, i + 1)
TextLen(toks) == TextLenR(toks, 1)

---------------------------------------------------------------------------
(* 4. CANONICAL FORM (tlcrc32.go; docs: one line, no braces, single spaces, *)
(* "[ x ]" spacing, % kept only before a name that does not start with a   *)
(* lower-case letter, arithmetic replaced by its value).                   *)
(* Inside a repetition body a field is written in its source spelling      *)
(* (parentheses, %, ! kept - as the code has it).  Parameter v: TRUE = the *)
(* documented rule "arithmetic replaced by its value" also holds there     *)
(* (this is THE canonical form of the specification); FALSE = the literals *)
(* are kept as written, "1 + 2" (what the code hashes; used only to        *)
(* classify a deviation).                                                  *)

CanonPercent(t) == t.b /\ (t.nm = "" \/ ~LowerStart(t.nm))
RECURSIVE CanonType(_)
CanonArg(a) == IF a.ar # <<>> THEN Dec(NSum(a.ar)) ELSE CanonType(a.t[1])
CanonType(t) == (IF CanonPercent(t) THEN "%" ELSE "") \o QName(t.ns, t.nm)
                \o Join([i \in 1..Len(t.as) |-> " " \o CanonArg(t.as[i])], "")

(* the "source" spelling used inside repetition bodies *)
ArithStr(ns, v) == IF v THEN Dec(NSum(ns)) ELSE Join([i \in 1..Len(ns) |-> Dec(ns[i])], " + ")
RECURSIVE StrType(_, _)
StrArg(a, v) == IF a.ar # <<>> THEN ArithStr(a.ar, v) ELSE StrType(a.t[1], v)
StrType(t, v) == (IF t.b THEN "%" ELSE "")
                 \o (IF t.as = <<>> THEN QName(t.ns, t.nm)
                     ELSE "(" \o QName(t.ns, t.nm) \o Join([i \in 1..Len(t.as) |-> " " \o StrArg(t.as[i], v)], "") \o ")")
MaskStr(f) == IF f.m = <<>> THEN "" ELSE f.m[1].n \o "." \o Dec(f.m[1].bit) \o "?"
NameStr(f) == IF f.n = "" THEN "" ELSE f.n \o ":"

RECURSIVE CanonRep(_, _)
(* inside a body: a nested repetition is written  name:scale*[ ... ]  (its mask is not part of the form), *)
(* any other field in its source spelling                                                                *)
BodyItem(f, v) == IF f.rep # <<>> THEN NameStr(f) \o CanonRep(f.rep[1], v)
                  ELSE NameStr(f) \o MaskStr(f) \o (IF f.ex THEN "!" ELSE "") \o StrType(f.t[1], v)
CanonRep(r, v) == (CASE r.sk = "none" -> ""
                     [] r.sk = "name" -> r.sn \o "*"
                     [] r.sk = "ar"   -> Dec(NSum(r.sa)) \o "*")
                  \o "[" \o Join([i \in 1..Len(r.body) |-> " " \o BodyItem(r.body[i], v)], "") \o " ]"

CanonFieldV(f, v) == NameStr(f) \o MaskStr(f) \o (IF f.rep # <<>> THEN CanonRep(f.rep[1], v) ELSE CanonType(f.t[1]))
CanonField(f) == CanonFieldV(f, TRUE)

(* Canon(c): the words of the canonical form; CanonText joins them with single spaces *)
CanonV(c, v) ==
     <<QName(c.ns, c.nm)>>
  \o [i \in 1..Len(c.ta) |-> c.ta[i].n \o (IF c.ta[i].nat THEN ":#" ELSE ":Type")]
  \o (IF c.bi THEN <<"?">> ELSE <<>>)
  \o [i \in 1..Len(c.fs) |-> CanonFieldV(c.fs[i], v)]
  \o <<"=">>
  \o (IF c.fn THEN <<CanonType(c.res[1])>> ELSE <<QName(c.dns, c.dnm)>> \o c.da)
Canon(c) == CanonV(c, TRUE)
CanonText(c) == Join(Canon(c), " ")
CanonTextAsCoded(c) == Join(CanonV(c, FALSE), " ")      \* classification of a known deviation only

(* the canonical listing: modifiers ordered by their flag value, the effective tag attached to the name, *)
(* template arguments in braces; tagHex = the effective tag                                              *)
ModFlag(m) == CASE m = "read" -> 1 [] m = "write" -> 2 [] m = "readwrite" -> 3 [] m = "internal" -> 4
                [] m = "kphp" -> 8 [] OTHER -> 0
RECURSIVE InsertSorted(_, _)
InsertSorted(s, m) == IF s = <<>> THEN <<m>>
                      ELSE IF ModFlag(m) < ModFlag(s[Len(s)]) THEN InsertSorted(SubSeq(s, 1, Len(s) - 1), m) \o <<s[Len(s)]>>
                      ELSE s \o <<m>>
RECURSIVE SortMods(_, _)
SortMods(ms, i) == IF i = 0 THEN <<>> ELSE InsertSorted(SortMods(ms, i - 1), ms[i])
ListingLineV(c, tagHex, v) ==
     Join([i \in 1..Len(c.mods) |-> "@" \o SortMods(c.mods, Len(c.mods))[i] \o " "], "")
  \o QName(c.ns, c.nm) \o "#" \o tagHex \o " "
  \o Join([i \in 1..Len(c.ta) |-> "{" \o c.ta[i].n \o (IF c.ta[i].nat THEN ":#" ELSE ":Type") \o "} "], "")
  \o (IF c.bi THEN "? " ELSE "")
  \o Join([i \in 1..Len(c.fs) |-> CanonFieldV(c.fs[i], v) \o " "], "")
  \o "= "
  \o (IF c.fn THEN CanonType(c.res[1]) ELSE Join(<<QName(c.dns, c.dnm)>> \o c.da, " "))
ListingLine(c, tagHex) == ListingLineV(c, tagHex, TRUE)
ListingHeader == <<"int#a8509bda ? = Int", "long#22076cba ? = Long", "float#824dab22 ? = Float",
                   "double#2210c154 ? = Double", "string#b5286e24 ? = String">>
ListingSkips == {"int", "long", "float", "double", "string"}      \* combinators with these names are not listed again
(* a listing line ends with a comment naming the source file; the whole listing: the fixed header, then one line *)
(* per combinator in source order                                                                              *)
ListingFileLine(c, tagHex, file) == ListingLine(c, tagHex) \o " //  " \o file
Listed(c) == QName(c.ns, c.nm) \notin ListingSkips
(* what a listing line denotes when it is terminated and parsed again: the same combinator with its effective *)
(* tag written explicitly, its modifiers in listing order and every arithmetic expression replaced by its     *)
(* value (the canonical rule)                                                                                 *)
ListingDenotes(c, tagHex) == [FoldC(c) EXCEPT !.tag = tagHex, !.mods = SortMods(c.mods, Len(c.mods))]

---------------------------------------------------------------------------
(* 5. THE PRINTER (TL.String): one combinator per line, sections inserted   *)
(* where the kind changes, applications parenthesised, the literals of an  *)
(* arithmetic expression joined by " + ", an explicit tag 00000000 omitted. *)
PrintArith(ns) == Join([i \in 1..Len(ns) |-> Dec(ns[i])], " + ")
RECURSIVE PrintType(_)
PrintArg(a) == IF a.ar # <<>> THEN PrintArith(a.ar) ELSE PrintType(a.t[1])
PrintType(t) == (IF t.b THEN "%" ELSE "")
                \o (IF t.as = <<>> THEN QName(t.ns, t.nm)
                    ELSE "(" \o QName(t.ns, t.nm) \o Join([i \in 1..Len(t.as) |-> " " \o PrintArg(t.as[i])], "") \o ")")
PrintTop(t) == (IF t.b THEN "%" ELSE "") \o QName(t.ns, t.nm) \o Join([i \in 1..Len(t.as) |-> " " \o PrintArg(t.as[i])], "")
RECURSIVE PrintField(_)
PrintRep(r) == (CASE r.sk = "none" -> ""
                  [] r.sk = "name" -> r.sn \o "*"
                  [] r.sk = "ar"   -> "(" \o PrintArith(r.sa) \o ")*")
               \o "[" \o Join([i \in 1..Len(r.body) |-> PrintField(r.body[i])], " ") \o "]"
PrintField(f) == NameStr(f) \o MaskStr(f) \o (IF f.ex THEN "!" ELSE "")
                 \o (IF f.rep # <<>> THEN PrintRep(f.rep[1]) ELSE PrintType(f.t[1]))
PrintComb(c) ==
     Join([i \in 1..Len(c.mods) |-> "@" \o c.mods[i] \o " "], "")
  \o QName(c.ns, c.nm) \o (IF c.tag # "" /\ c.tag # "00000000" THEN "#" \o c.tag ELSE "") \o " "
  \o Join([i \in 1..Len(c.ta) |-> "{" \o c.ta[i].n \o (IF c.ta[i].nat THEN ":#" ELSE ":Type") \o "} "], "")
  \o (IF c.bi THEN "? " ELSE Join([i \in 1..Len(c.fs) |-> PrintField(c.fs[i]) \o " "], ""))
  \o "= "
  \o (IF c.fn THEN PrintTop(c.res[1]) ELSE Join(<<QName(c.dns, c.dnm)>> \o c.da, " "))
  \o ";"
RECURSIVE PrintSchemaR(_, _, _)
PrintSchemaR(cs, i, inFn) ==
  IF i > Len(cs) THEN ""
  ELSE (IF cs[i].fn /\ ~inFn THEN "---functions---\n" ELSE IF ~cs[i].fn /\ inFn THEN "---types---\n" ELSE "")
       \o PrintComb(cs[i]) \o "\n" \o PrintSchemaR(cs, i + 1, cs[i].fn)
PrintSchema(cs) == PrintSchemaR(cs, 1, FALSE)
(* what the parser returns for the printed text: an explicit tag 00000000 is lost (modelled, known) *)
AfterPrint(c) == IF c.tag = "00000000" THEN [c EXCEPT !.tag = ""] ELSE c

---------------------------------------------------------------------------
(* 6. MUTATIONS of a sequence of significant tokens *)
MutDelete(s, i)     == SubSeq(s, 1, i - 1) \o SubSeq(s, i + 1, Len(s))
MutDup(s, i)        == SubSeq(s, 1, i) \o SubSeq(s, i, Len(s))
MutSwap(s, i)       == SubSeq(s, 1, i - 1) \o <<s[i + 1], s[i]>> \o SubSeq(s, i + 2, Len(s))
MutReplace(s, i, t) == SubSeq(s, 1, i - 1) \o <<t>> \o SubSeq(s, i + 1, Len(s))
MutInsert(s, i, t)  == SubSeq(s, 1, i - 1) \o <<t>> \o SubSeq(s, i, Len(s))
MutTrunc(s, i)      == SubSeq(s, 1, i)
MutSplice(s, i, q)  == SubSeq(s, 1, i - 1) \o q \o SubSeq(s, i + 1, Len(s))      \* token i replaced by the tokens q
(* what an operand of an arithmetic expression (a number token) is replaced by: (ident) (number) () ident ((number) *)
OperandEdits == { <<P("("), K("lc", "a"), P(")")>>, <<P("("), K("num", "1"), P(")")>>, <<P("("), P(")")>>,
                  <<P("("), K("num", "4294967295"), P(")")>>, <<P("("), K("lc", "a"), P("+"), K("num", "1"), P(")")>>,
                  <<P("("), P("("), K("num", "1"), P(")")>>, <<P("("), K("num", "1")>> }

(* token alphabet of TL1 (kind, lexeme); "badN" = a lexical error whose error token has N bytes *)
Alphabet1 ==
  { K("lc", "a"), K("lc", "x1"), K("uc", "A"), K("uc", "Type"), K("lcns", "a.b"), K("ucns", "a.B"),
    K("num", "0"), K("num", "1"), K("num", "007"), K("num", "4294967295"), K("num", "4294967296"),
    K("num", "18446744073709551615"), K("num", "18446744073709551616"),
    K("#", "#"), K("tag", "#00000000"), K("tag", "#1234abcd"), K("tag", "#ffffffff"), K("ann", "@a"),
    P("("), P(")"), P("["), P("]"), P("{"), P("}"), P("<"), P(">"), P(":"), P(";"), P("."), P(","),
    P("%"), P("="), P("=>"), P("?"), P("*"), P("+"), P("!"), P("|"), P("-"),
    K("sec_t", "---types---"), K("sec_f", "---functions---"),
    K("nl", "\n"), K("cmt", "//c"),
    K("bad3", "A.b"), K("bad4", "#123"), K("bad2", "@A"), K("bad1", "_"), K("bad2", "0a"), K("bad1", "$"),
    K("bad1", "/"), K("bad2", "/*"), K("bad9", "#1234ABCD"), K("badcr", "\r") }
Punct1Toks == {t \in Alphabet1 : t.k = t.s}
(* one lexeme per token kind (used for the longest exhaustive strings) *)
Core1 == Punct1Toks \cup { K("lc", "a"), K("uc", "A"), K("lcns", "a.b"), K("ucns", "a.B"), K("num", "1"), K("#", "#"),
                            K("tag", "#1234abcd"), K("ann", "@a"), K("sec_t", "---types---"), K("sec_f", "---functions---"),
                            K("nl", "\n"), K("cmt", "//c"), K("bad3", "A.b"), K("bad1", "$"), K("num", "4294967296") }


(* a token sequence written with one space between tokens *)
RECURSIVE SpacedR(_, _)
SpacedR(s, i) == IF i > Len(s) THEN <<>> ELSE IF i = Len(s) THEN <<s[i]>> ELSE <<s[i], K("SP", " ")>> \o SpacedR(s, i + 1)
Spaced(s) == SpacedR(s, 1)
(* Expected error of a spaced token string. Lexemes of kind "bad:n" are lexical errors by themselves   *)
(* whose error token covers their first n bytes.  Lexing precedes validation precedes parsing:         *)
(*   first lexical error, else first token that is illegal for the language, else unknown ("parse").   *)
BadLen(t) == CASE t.k = "bad1" -> 1 [] t.k = "bad2" -> 2 [] t.k = "bad3" -> 3 [] t.k = "bad4" -> 4 [] t.k = "bad9" -> 9 [] t.k = "badcr" -> 1 [] OTHER -> 0
SpacedOff(s, i) == TextLen(SubSeq(s, 1, i - 1)) + (i - 1)
(* a comment token swallows the rest of its line (up to the next line feed or carriage return) *)
Visible(s, i) == \/ s[i].k = "badcr"
                 \/ ~\E j \in 1..(i - 1) : s[j].k = "cmt" /\ \A m \in (j + 1)..(i - 1) : s[m].k \notin {"nl", "badcr"}
ExpectSpaced(s, lang) ==
  LET bad  == {i \in 1..Len(s) : BadLen(s[i]) > 0 /\ Visible(s, i)}
      ill  == {i \in 1..Len(s) : s[i].k \in IllegalKinds(lang) /\ Visible(s, i)}
  IN IF bad # {} THEN [class |-> "lex", b |-> SpacedOff(s, Min(bad)), e |-> SpacedOff(s, Min(bad)) + BadLen(s[Min(bad)])]
     ELSE IF ill # {} THEN [class |-> "illegal", b |-> SpacedOff(s, Min(ill)), e |-> SpacedOff(s, Min(ill)) + Len(s[Min(ill)].s)]
     ELSE [class |-> "parse", b |-> -1, e |-> -1]
=============================================================================
