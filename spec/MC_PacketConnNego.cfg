INIT NegoInit
NEXT NegoNext
INVARIANTS NegoEmit NoDowngrade AesNeedsCommonKey PlainAlwaysPossible CommonKeyConnects
CHECK_DEADLOCK FALSE
