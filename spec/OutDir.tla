------------------------------- MODULE OutDir -------------------------------
(***************************************************************************)
(* The output directory of a generator (puregen.OutDir.Write for tl2gen,   *)
(* tlcodegen.Gen2.WriteToDir for tlgen) as a file-system state machine.    *)
(*                                                                         *)
(* Paths are atomic strings relative to the output directory; what a       *)
(* generation of schema s with option row o consists of (file names and    *)
(* content ids), the marker file, the runtime-library location derived     *)
(* from the package paths, the user actions' paths and the ancestor        *)
(* directories of every path are read from outdir_data.json (measured by   *)
(* the harness with ONE generation per (s, o) into an empty directory).    *)
(* The model predicts what every HISTORY must leave behind.                *)
(***************************************************************************)
EXTENDS Integers, Sequences, FiniteSets, TLC, Json

CONSTANT MaxSteps            \* histories of at most MaxSteps user/generator actions

Data == JsonDeserialize("outdir_data.json")

ToSet(q) == {q[i] : i \in 1..Len(q)}
Schemas     == ToSet(Data.schemas)
Opts        == ToSet(Data.opts)
Marker      == Data.marker                  \* file of the previous generation that must be present
ForeignPaths == ToSet(Data.foreign)         \* files a user may drop into the directory
ForeignCid  == Data.foreignCid
TouchPaths  == ToSet(Data.touch)            \* generated files a user may edit
EditedCid   == Data.editedCid
EmptyDirs   == ToSet(Data.emptyDirs)        \* nested empty directories a user may create
KeepPaths   == ToSet(Data.keep)             \* foreign files a generation preserves by design (cpp: *.o)
Anc(p)      == ToSet(Data.anc[p])           \* ancestor directories of p inside the output directory

Content(s, o) == Data.gen[s][o]             \* path |-> content id, inside the output directory
Files(s, o)   == DOMAIN Content(s, o)
RtSeq(o)      == Data.rtlib[o]              \* sequence of [p, c]: files at the runtime-library location
RuntimeLibPaths(o) == {RtSeq(o)[i].p : i \in 1..Len(RtSeq(o))}
RtIdx(o, p)   == (CHOOSE i \in 1..Len(RtSeq(o)) : RtSeq(o)[i].p = p)
AllRuntimeLibPaths == UNION {RuntimeLibPaths(o) : o \in Opts}

VARIABLES fs,        \* path |-> content id (files inside the output directory)
          stamp,     \* path |-> value of clock when the file was last written
          dirs,      \* directories inside the output directory
          outside,   \* path |-> content id of files written outside the output directory
          clock,     \* number of actions so far
          last,      \* the action that produced this state and its verdict
          js         \* ToJson(projection) for the edge-replay harness

vars == <<fs, stamp, dirs, outside, clock, last, js>>

Restrict(f, S) == [x \in S |-> f[x]]
DirsOf(paths) == UNION {Anc(p) : p \in paths}

Proj(f, st, d, out, c, l) ==
  [fs |-> f, written |-> {p \in DOMAIN f : st[p] = c}, dirs |-> d, outside |-> out, last |-> l, clock |-> c]

NoAct == [act |-> "Init", s |-> "", o |-> "", arg |-> "", ok |-> TRUE]

Init == /\ fs = <<>> /\ stamp = <<>> /\ dirs = {} /\ outside = <<>> /\ clock = 0
        /\ last = NoAct
        /\ js = ToJson(Proj(<<>>, <<>>, {}, <<>>, 0, NoAct))

SetJs == js' = ToJson(Proj(fs', stamp', dirs', outside', clock', last'))

(* the guard of both generators: the directory holds no file at all, or    *)
(* the marker of a previous generation is there                            *)
MayGenerate == DOMAIN fs = {} \/ Marker \in DOMAIN fs

Generate(s, o) ==
  /\ clock' = clock + 1
  /\ IF MayGenerate
     THEN LET new  == Content(s, o)
              kept == {p \in DOMAIN fs : p \in KeepPaths /\ p \notin DOMAIN new}
              nfs  == [p \in DOMAIN new \cup kept |-> IF p \in DOMAIN new THEN new[p] ELSE fs[p]]
          IN /\ fs' = nfs
             /\ stamp' = [p \in DOMAIN nfs |->
                            IF p \in DOMAIN fs /\ fs[p] = nfs[p] THEN stamp[p] ELSE clock + 1]
             /\ dirs' = DirsOf(DOMAIN nfs)
             /\ outside' = [p \in DOMAIN outside \cup RuntimeLibPaths(o) |->
                              IF p \in RuntimeLibPaths(o) THEN RtSeq(o)[RtIdx(o, p)].c ELSE outside[p]]
             /\ last' = [act |-> "Generate", s |-> s, o |-> o, arg |-> "", ok |-> TRUE]
     ELSE /\ UNCHANGED <<fs, stamp, dirs, outside>>
          /\ last' = [act |-> "Generate", s |-> s, o |-> o, arg |-> "", ok |-> FALSE]
  /\ SetJs

AddForeign(p) ==
  /\ p \notin DOMAIN fs
  /\ fs' = [q \in DOMAIN fs \cup {p} |-> IF q = p THEN ForeignCid ELSE fs[q]]
  /\ stamp' = [q \in DOMAIN fs \cup {p} |-> IF q = p THEN clock + 1 ELSE stamp[q]]
  /\ dirs' = dirs \cup Anc(p)
  /\ clock' = clock + 1
  /\ last' = [act |-> "AddForeign", s |-> "", o |-> "", arg |-> p, ok |-> TRUE]
  /\ UNCHANGED outside
  /\ SetJs

RemoveMarker ==
  /\ Marker \in DOMAIN fs
  /\ fs' = Restrict(fs, DOMAIN fs \ {Marker})
  /\ stamp' = Restrict(stamp, DOMAIN fs \ {Marker})
  /\ clock' = clock + 1
  /\ last' = [act |-> "RemoveMarker", s |-> "", o |-> "", arg |-> Marker, ok |-> TRUE]
  /\ UNCHANGED <<dirs, outside>>
  /\ SetJs

(* the user edits a generated file *)
Touch(p) ==
  /\ p \in DOMAIN fs /\ fs[p] # EditedCid
  /\ fs' = [fs EXCEPT ![p] = EditedCid]
  /\ stamp' = [stamp EXCEPT ![p] = clock + 1]
  /\ clock' = clock + 1
  /\ last' = [act |-> "Touch", s |-> "", o |-> "", arg |-> p, ok |-> TRUE]
  /\ UNCHANGED <<dirs, outside>>
  /\ SetJs

AddEmptyDir(d) ==
  /\ d \notin dirs
  /\ dirs' = dirs \cup {d} \cup Anc(d)
  /\ clock' = clock + 1
  /\ last' = [act |-> "AddEmptyDir", s |-> "", o |-> "", arg |-> d, ok |-> TRUE]
  /\ UNCHANGED <<fs, stamp, outside>>
  /\ SetJs

Next ==
  /\ clock < MaxSteps
  /\ \/ \E s \in Schemas, o \in Opts : Generate(s, o)
     \/ \E p \in ForeignPaths : AddForeign(p)
     \/ RemoveMarker
     \/ \E p \in TouchPaths : Touch(p)
     \/ \E d \in EmptyDirs : AddEmptyDir(d)

Spec == Init /\ [][Next]_vars

---------------------------------------------------------------------------
TypeOK ==
  /\ DOMAIN stamp = DOMAIN fs
  /\ \A p \in DOMAIN fs : stamp[p] \in 1..clock
  /\ DirsOf(DOMAIN fs) \subseteq dirs

(* after a successful generation the directory holds exactly the files of  *)
(* that generation (plus what the generator preserves by design)           *)
ExactAfterGenerate ==
  (last.act = "Generate" /\ last.ok) =>
     /\ Files(last.s, last.o) \subseteq DOMAIN fs
     /\ DOMAIN fs \ Files(last.s, last.o) \subseteq KeepPaths
     /\ \A p \in Files(last.s, last.o) : fs[p] = Content(last.s, last.o)[p]
     /\ dirs = DirsOf(DOMAIN fs)
     /\ Marker \in DOMAIN fs

(* nothing is ever written outside except at the runtime-library location  *)
OutsideOnlyRuntimeLib == DOMAIN outside \subseteq AllRuntimeLibPaths

(* files whose content did not change keep their stamp *)
UnchangedNotRewritten ==
  [][\A p \in DOMAIN fs \cap DOMAIN fs' : fs'[p] = fs[p] => stamp'[p] = stamp[p]]_vars

(* ... and files whose content changed or that are new are stamped now *)
ChangedRewritten ==
  [][\A p \in DOMAIN fs' : (p \notin DOMAIN fs \/ fs'[p] # fs[p]) => stamp'[p] = clock']_vars

(* a refused generation changes nothing, inside or outside *)
RefusalChangesNothing ==
  [][(last'.act = "Generate" /\ ~last'.ok) => UNCHANGED <<fs, stamp, dirs, outside>>]_vars

(* a generation is refused exactly when files exist and the marker is not among them *)
RefusedIffUnmarked ==
  [][last'.act = "Generate" => (last'.ok <=> (DOMAIN fs = {} \/ Marker \in DOMAIN fs))]_vars

(* one step writes outside only what the option row of that step allows *)
OutsideStep ==
  [][\A p \in DOMAIN outside' : (p \notin DOMAIN outside \/ outside'[p] # outside[p])
        => (last'.act = "Generate" /\ last'.ok /\ p \in RuntimeLibPaths(last'.o))]_vars
=============================================================================
