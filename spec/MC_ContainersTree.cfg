CONSTANTS
  Keys = @KEYS@
  Vals = @VALS@
  VKeys = @VKEYS@
  LeafH = @LEAFH@
INIT Init
NEXT Next
INVARIANTS Emit TreeRefines TreeObsAgree TreeStoredOK TreeLogHeight TreeImbalanceBound @STRICT@
CHECK_DEADLOCK FALSE
