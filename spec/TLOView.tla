------------------------------ MODULE TLOView ------------------------------
(***************************************************************************)
(* What a TLO file must list for a TL1 schema (C26).                       *)
(*                                                                         *)
(* Input (tlo_ast.json, written by the harness from the schema's AST, not  *)
(* from the TLO): a sequence of schemas [id, combs], combs a sequence of   *)
(*   [name, tag, func, type, targs]                                        *)
(*   name : full constructor / function name                               *)
(*   tag  : 4-byte little-endian tuple (TLC integers are 32-bit signed)    *)
(*   func : BOOLEAN                                                        *)
(*   type : full name of the declared type (constructors) / "" (functions) *)
(*   targs: sequence of "type" | "nat" (template parameter kinds)          *)
(*                                                                         *)
(* View(s): every constructor and function exactly once with tag and name; *)
(* every type with arity, parameter kinds, constructor count and a "name"  *)
(* equal to the byte-wise XOR of its constructors' tags; plus the two      *)
(* types every TLO carries (# and Type).  A schema in which two types get  *)
(* the same name cannot be described: it must be rejected (Collides).      *)
(***************************************************************************)
EXTENDS Integers, Sequences, FiniteSets, TLC, Json, Bitwise

Schemas == JsonDeserialize("tlo_ast.json")

Zero4 == <<0, 0, 0, 0>>
Xor4(x, y) == [i \in 1..4 |-> x[i] ^^ y[i]]
NatTag  == <<255, 158, 101, 112>>     \* 0x70659eff = crc32("#")
TypeTag == <<23, 248, 236, 44>>       \* 0x2cecf817 = crc32("Type")

Ctors(s) == SelectSeq(s.combs, LAMBDA c : ~c.func)
Funcs(s) == SelectSeq(s.combs, LAMBDA c : c.func)
TypeNames(s) == {Ctors(s)[i].type : i \in 1..Len(Ctors(s))}
CtorsOf(s, t) == SelectSeq(Ctors(s), LAMBDA c : c.type = t)

RECURSIVE XorAll(_)
XorAll(cs) == IF cs = <<>> THEN Zero4 ELSE Xor4(cs[1].tag, XorAll(Tail(cs)))

TypeView(s, t) ==
  LET cs == CtorsOf(s, t) IN
  [id |-> t, name |-> XorAll(cs), arity |-> Len(cs[1].targs), kinds |-> cs[1].targs, ncons |-> Len(cs)]

Builtins == { [id |-> "#", name |-> NatTag, arity |-> 0, kinds |-> <<>>, ncons |-> 0],
              [id |-> "Type", name |-> TypeTag, arity |-> 0, kinds |-> <<>>, ncons |-> 0] }

Types(s) == Builtins \cup {TypeView(s, t) : t \in TypeNames(s)}

TypeNameOf(s, t) == (CHOOSE v \in Types(s) : v.id = t).name

View(s) ==
  [id |-> s.id,
   types |-> Types(s),
   ctors |-> [i \in 1..Len(Ctors(s)) |-> [id |-> Ctors(s)[i].name, tag |-> Ctors(s)[i].tag,
                                          tname |-> TypeNameOf(s, Ctors(s)[i].type)]],
   funcs |-> {[id |-> Funcs(s)[i].name, tag |-> Funcs(s)[i].tag] : i \in 1..Len(Funcs(s))},
   nfuncs |-> Len(Funcs(s)),
   collides |-> \E a, b \in Types(s) : a.id # b.id /\ a.name = b.name]

(* sanity of the view itself: a listing without repetitions *)
EachOnce(s) ==
  LET v == View(s) IN
  /\ Cardinality({v.ctors[i].id : i \in 1..Len(v.ctors)}) = Len(v.ctors)
  /\ Cardinality(v.funcs) = v.nfuncs
  /\ \A t \in v.types : t.ncons = Cardinality({i \in 1..Len(v.ctors) : v.ctors[i].tname = t.name /\ ~v.collides})
                         \/ v.collides

VARIABLE i
Init == i \in 1..Len(Schemas)
Next == UNCHANGED i

Emit == PrintT(ToJson(<<"@@", View(Schemas[i])>>))
Sane == (~View(Schemas[i]).collides /\ Schemas[i].uniqueNames) => EachOnce(Schemas[i])
=============================================================================
