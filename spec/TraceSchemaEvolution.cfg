CONSTANTS
  MaxBit = @MAXBIT@
INIT Init
NEXT Next
INVARIANT @INV@
CHECK_DEADLOCK FALSE
