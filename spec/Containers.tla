----------------------------- MODULE Containers -----------------------------
(***************************************************************************)
(* internal/vkgo/pkg/algo: TreeMap (tree_map.go) and CircularSlice         *)
(* (circular_slice.go), each at two levels.                                *)
(*                                                                         *)
(* TreeMap                                                                 *)
(*   abstract : m, a total function Keys -> Vals \cup {NoVal}  (ordered    *)
(*              map; Front/Back/Get/Empty/LenMoreThan1 defined on it)      *)
(*   concrete : t, a transcription of the AVL algorithm of tree_map.go     *)
(*              (insert / remove / extractMin / repairBalance / the four   *)
(*              rotations, STORED heights with the code's convention for a *)
(*              fresh leaf = constant LeafH).  A node is the tuple         *)
(*              <<key, value, storedHeight, left, right>>, nil is <<>>.    *)
(*   refinement mapping : AbsMap(t) = m, checked as an invariant together   *)
(*              with BST order; the concrete observers (find / findMin /   *)
(*              findMax / LenMoreThan1 on the root) must agree with the    *)
(*              abstract ones.                                             *)
(*   balance  : TrueBalanced = strict AVL balance computed from the SHAPE  *)
(*              (|true height(left) - true height(right)| <= 1 at every    *)
(*              node; true height = number of nodes on the longest path),  *)
(*              StoredOK = what the algorithm maintains on stored heights, *)
(*              LogHeight = the size/height relation.                      *)
(*                                                                         *)
(* CircularSlice                                                           *)
(*   abstract : q, a FIFO sequence                                         *)
(*   concrete : [el, rp, wp] = (elements array of length cap, read_pos,    *)
(*              write_pos) transcribed from circular_slice.go, so that     *)
(*              wrap-around positions are distinct states; slots outside   *)
(*              the visible part hold Zero.                                *)
(***************************************************************************)
EXTENDS Integers, Sequences, FiniteSets, TLC

CONSTANTS Keys,      \* key domain (a set of positive integers)
          Vals,      \* value domain (positive integers)
          LeafH      \* stored height given to a fresh leaf by insert():
                     \* tree_map.go says "n.height = 0"; a textbook AVL says 1

NoVal == 0
Zero  == 0
Panic == -1          \* scalar observers: the call panics
NoEntry == <<>>      \* Front/Back of the tree map: the call panics

Max(a, b) == IF a > b THEN a ELSE b
Min(a, b) == IF a < b THEN a ELSE b
Abs(a)    == IF a < 0 THEN -a ELSE a

---------------------------------------------------------------------------
(*                      TreeMap, concrete level                            *)
Nil == <<>>
Node(k, v, h, l, r) == <<k, v, h, l, r>>
K(n)  == n[1]
V(n)  == n[2]
SH(n) == n[3]
L(n)  == n[4]
R(n)  == n[5]
SetV(n, v) == Node(K(n), v, SH(n), L(n), R(n))
SetH(n, h) == Node(K(n), V(n), h, L(n), R(n))
SetL(n, l) == Node(K(n), V(n), SH(n), l, R(n))
SetR(n, r) == Node(K(n), V(n), SH(n), L(n), r)

GetHeight(n)   == IF n = Nil THEN 0 ELSE SH(n)                    \* getHeight
CalcBalance(n) == IF n = Nil THEN 0 ELSE GetHeight(R(n)) - GetHeight(L(n))
UpdateHeight(n) == SetH(n, 1 + Max(GetHeight(L(n)), GetHeight(R(n))))

RotateRight(n) ==
  LET l  == L(n)
      n1 == UpdateHeight(SetL(n, R(l)))
  IN UpdateHeight(SetR(l, n1))
RotateLeft(n) ==
  LET r  == R(n)
      n1 == UpdateHeight(SetR(n, L(r)))
  IN UpdateHeight(SetL(r, n1))
BigRotateRight(n) == RotateRight(SetL(n, RotateLeft(L(n))))
BigRotateLeft(n)  == RotateLeft(SetR(n, RotateRight(R(n))))

(* which branch of repairBalance is taken *)
RepairCase(n0) ==
  LET n == UpdateHeight(n0) IN
  IF CalcBalance(n) = 2 THEN (IF CalcBalance(R(n)) = -1 THEN "bigL" ELSE "rotL")
  ELSE IF CalcBalance(n) = -2 THEN (IF CalcBalance(L(n)) = 1 THEN "bigR" ELSE "rotR")
  ELSE "none"
RepairBalance(n0) ==
  LET n == UpdateHeight(n0)
      c == RepairCase(n0) IN
  CASE c = "bigL" -> BigRotateLeft(n)
    [] c = "rotL" -> RotateLeft(n)
    [] c = "bigR" -> BigRotateRight(n)
    [] c = "rotR" -> RotateRight(n)
    [] OTHER      -> n

RECURSIVE Insert(_, _, _)
Insert(n, k, v) ==
  IF n = Nil THEN Node(k, v, LeafH, Nil, Nil)
  ELSE IF K(n) < k THEN RepairBalance(SetR(n, Insert(R(n), k, v)))
  ELSE IF k < K(n) THEN RepairBalance(SetL(n, Insert(L(n), k, v)))
  ELSE RepairBalance(SetV(n, v))

(* extractMin: <<min key, min value, new subtree>>;  Pre: n # Nil *)
RECURSIVE ExtractMin(_)
ExtractMin(n) ==
  IF L(n) = Nil THEN <<K(n), V(n), R(n)>>
  ELSE LET e == ExtractMin(L(n)) IN <<e[1], e[2], RepairBalance(SetL(n, e[3]))>>

RECURSIVE Remove(_, _)
Remove(n, k) ==
  IF n = Nil THEN Nil
  ELSE IF K(n) < k THEN RepairBalance(SetR(n, Remove(R(n), k)))
  ELSE IF k < K(n) THEN RepairBalance(SetL(n, Remove(L(n), k)))
  ELSE IF L(n) = Nil THEN R(n)
  ELSE IF R(n) = Nil THEN L(n)
  ELSE LET e == ExtractMin(R(n)) IN RepairBalance(Node(e[1], e[2], SH(n), L(n), e[3]))

RECURSIVE Find(_, _)
Find(n, k) == IF n = Nil THEN Nil
              ELSE IF K(n) < k THEN Find(R(n), k)
              ELSE IF k < K(n) THEN Find(L(n), k)
              ELSE n
(* "*t.GetPtr(k) = v": the value is replaced in place, nothing is repaired *)
RECURSIVE UpdateVal(_, _, _)
UpdateVal(n, k, v) == IF n = Nil THEN Nil
                      ELSE IF K(n) < k THEN SetR(n, UpdateVal(R(n), k, v))
                      ELSE IF k < K(n) THEN SetL(n, UpdateVal(L(n), k, v))
                      ELSE SetV(n, v)
RECURSIVE FindMin(_)
FindMin(n) == IF L(n) # Nil THEN FindMin(L(n)) ELSE n
RECURSIVE FindMax(_)
FindMax(n) == IF R(n) # Nil THEN FindMax(R(n)) ELSE n

(* exported observers, as the code computes them; NoEntry where it panics *)
CGet(t, k)   == LET n == Find(t, k) IN IF n = Nil THEN NoVal ELSE V(n)
CFront(t)    == IF t = Nil THEN NoEntry ELSE LET n == FindMin(t) IN <<K(n), V(n)>>
CBack(t)     == IF t = Nil THEN NoEntry ELSE LET n == FindMax(t) IN <<K(n), V(n)>>
CEmpty(t)    == t = Nil
CLenMoreThan1(t) == t # Nil /\ (L(t) # Nil \/ R(t) # Nil)

(* rotation cases taken by one operation, bottom-up (measurement only) *)
RECURSIVE InsertCases(_, _, _)
InsertCases(n, k, v) ==
  IF n = Nil THEN <<>>
  ELSE IF K(n) < k THEN Append(InsertCases(R(n), k, v), RepairCase(SetR(n, Insert(R(n), k, v))))
  ELSE IF k < K(n) THEN Append(InsertCases(L(n), k, v), RepairCase(SetL(n, Insert(L(n), k, v))))
  ELSE <<RepairCase(SetV(n, v))>>
RECURSIVE ExtractMinCases(_)
ExtractMinCases(n) ==
  IF L(n) = Nil THEN <<>>
  ELSE Append(ExtractMinCases(L(n)), RepairCase(SetL(n, ExtractMin(L(n))[3])))
(* [rem |-> cases of remove's own repairBalance calls, ext |-> cases inside extractMin] *)
RECURSIVE RemoveCases(_, _)
RemoveCases(n, k) ==
  IF n = Nil THEN [rem |-> <<>>, ext |-> <<>>]
  ELSE IF K(n) < k THEN LET c == RemoveCases(R(n), k) IN
       [c EXCEPT !.rem = Append(@, RepairCase(SetR(n, Remove(R(n), k))))]
  ELSE IF k < K(n) THEN LET c == RemoveCases(L(n), k) IN
       [c EXCEPT !.rem = Append(@, RepairCase(SetL(n, Remove(L(n), k))))]
  ELSE IF L(n) = Nil \/ R(n) = Nil THEN [rem |-> <<>>, ext |-> <<>>]
  ELSE LET e == ExtractMin(R(n)) IN
       [rem |-> <<RepairCase(Node(e[1], e[2], SH(n), L(n), e[3]))>>, ext |-> ExtractMinCases(R(n))]

---------------------------------------------------------------------------
(*              TreeMap: shape predicates and refinement mapping           *)
RECURSIVE TrueH(_)
TrueH(n) == IF n = Nil THEN 0 ELSE 1 + Max(TrueH(L(n)), TrueH(R(n)))
RECURSIVE Size(_)
Size(n) == IF n = Nil THEN 0 ELSE 1 + Size(L(n)) + Size(R(n))
RECURSIVE InOrder(_)
InOrder(n) == IF n = Nil THEN <<>> ELSE InOrder(L(n)) \o <<<<K(n), V(n)>>>> \o InOrder(R(n))
(* largest |true height difference| between siblings anywhere in the tree *)
RECURSIVE MaxImbalance(_)
MaxImbalance(n) ==
  IF n = Nil THEN 0
  ELSE Max(Abs(TrueH(R(n)) - TrueH(L(n))), Max(MaxImbalance(L(n)), MaxImbalance(R(n))))

(* THE balance predicate of property C41: strict AVL balance of the shape *)
TrueBalanced(n) == MaxImbalance(n) <= 1

(* what the algorithm maintains on the stored heights *)
RECURSIVE StoredOK(_)
StoredOK(n) ==
  n = Nil \/
    /\ (IF L(n) = Nil /\ R(n) = Nil THEN SH(n) \in {LeafH, 1}
        ELSE SH(n) = 1 + Max(GetHeight(L(n)), GetHeight(R(n))))
    /\ Abs(CalcBalance(n)) <= 1
    /\ StoredOK(L(n)) /\ StoredOK(R(n))

(* fewest nodes of a tree of true height h when sibling true heights differ by
   at most d:  M(h) = 1 + M(h-1) + M(h-1-d).  d = 1 is the AVL (Fibonacci)
   bound, height <= 1.44 log2(n+2); d = 2 still gives height <= 1.82 log2(n+1). *)
ImbBound == IF LeafH = 1 THEN 1 ELSE 2
RECURSIVE MNSeq(_, _)
MNSeq(s, d) == IF Len(s) >= 40 THEN s
               ELSE MNSeq(Append(s, 1 + s[Len(s)] + (IF Len(s) - d >= 1 THEN s[Len(s) - d] ELSE 0)), d)
MinNodesTab == MNSeq(<<1>>, ImbBound)
MinNodes(h) == IF h <= 0 THEN 0 ELSE MinNodesTab[h]
LogHeight(n) == MinNodes(TrueH(n)) <= Size(n)

BST(n) == LET s == InOrder(n) IN \A i \in 1..(Len(s) - 1) : s[i][1] < s[i + 1][1]
AbsMap(n) == LET s == InOrder(n) IN     \* refinement mapping: tree |-> ordered map
  [k \in Keys |-> IF \E i \in 1..Len(s) : s[i][1] = k
                  THEN s[CHOOSE i \in 1..Len(s) : s[i][1] = k][2] ELSE NoVal]

---------------------------------------------------------------------------
(*                      TreeMap, abstract level                            *)
Dom(m)      == {k \in Keys : m[k] # NoVal}
MSet(m, k, v) == [m EXCEPT ![k] = v]
MDel(m, k)    == [m EXCEPT ![k] = NoVal]
MinOf(S) == CHOOSE x \in S : \A y \in S : x <= y
MaxOf(S) == CHOOSE x \in S : \A y \in S : x >= y
AGet(m, k)  == m[k]
AFront(m)   == IF Dom(m) = {} THEN NoEntry ELSE LET k == MinOf(Dom(m)) IN <<k, m[k]>>
ABack(m)    == IF Dom(m) = {} THEN NoEntry ELSE LET k == MaxOf(Dom(m)) IN <<k, m[k]>>
AEmpty(m)   == Dom(m) = {}
ALenMoreThan1(m) == Cardinality(Dom(m)) > 1

---------------------------------------------------------------------------
(*                     CircularSlice, concrete level                       *)
Zeros(n) == [i \in 1..n |-> Zero]
ZeroSlice == [el |-> <<>>, rp |-> 0, wp |-> 0]
Cap(s)  == Len(s.el)
SLen(s) == s.wp - s.rp
SSlices(s) ==                      \* Slices(): 1-based SubSeq of the 0-based Go slices
  IF s.wp <= Cap(s) THEN <<SubSeq(s.el, s.rp + 1, s.wp), <<>>>>
  ELSE <<SubSeq(s.el, s.rp + 1, Cap(s)), SubSeq(s.el, 1, s.wp - Cap(s))>>
SReserve(s, n) ==
  IF n <= Cap(s) THEN s
  ELSE LET c == SSlices(s)[1] \o SSlices(s)[2] IN
       [el |-> c \o Zeros(n - Len(c)), rp |-> 0, wp |-> Len(c)]
SPushBack(s, x) ==
  LET s1 == IF SLen(s) = Cap(s) THEN SReserve(s, 2 * Max(Cap(s), 4)) ELSE s
      c  == Cap(s1)
      i  == IF s1.wp < c THEN s1.wp ELSE s1.wp - c IN
  [el |-> [s1.el EXCEPT ![i + 1] = x], rp |-> s1.rp, wp |-> s1.wp + 1]
SFront(s) == IF s.wp = s.rp THEN Panic ELSE s.el[s.rp + 1]
SIndex(s, pos) ==                  \* IndexRef: note that only offsets >= cap are range-checked
  IF pos < 0 THEN Panic
  ELSE LET off == s.rp + pos IN
       IF off < Cap(s) THEN s.el[off + 1]
       ELSE IF off >= s.wp THEN Panic
       ELSE s.el[off - Cap(s) + 1]
SPhys(s, pos) ==                   \* 1-based physical slot of logical position pos, 0 <= pos < SLen(s)
  LET off == s.rp + pos IN IF off < Cap(s) THEN off + 1 ELSE off - Cap(s) + 1
SSetAt(s, pos, x) == [s EXCEPT !.el[SPhys(s, pos)] = x]      \* "*s.IndexRef(pos) = x"
SPopFront(s) ==                    \* Pre: SLen(s) > 0 (panics otherwise, state unchanged)
  LET el1 == [s.el EXCEPT ![s.rp + 1] = Zero]
      rp1 == s.rp + 1
      rp2 == IF rp1 >= Cap(s) THEN rp1 - Cap(s) ELSE rp1
      wp2 == IF rp1 >= Cap(s) THEN s.wp - Cap(s) ELSE s.wp IN
  IF rp2 = wp2 THEN [el |-> el1, rp |-> 0, wp |-> 0] ELSE [el |-> el1, rp |-> rp2, wp |-> wp2]
SClear(s) ==
  LET c == Cap(s)
      vis(i) == IF s.wp <= c THEN s.rp < i /\ i <= s.wp
                ELSE (s.rp < i /\ i <= c) \/ i <= s.wp - c IN
  [el |-> [i \in 1..c |-> IF vis(i) THEN Zero ELSE s.el[i]], rp |-> 0, wp |-> 0]

(* representation invariant of one slice *)
SliceInv(s) ==
  /\ 0 <= s.rp /\ s.rp <= s.wp /\ s.wp - s.rp <= Cap(s)
  /\ (Cap(s) = 0 \/ s.rp < Cap(s))
  /\ (s.rp = s.wp => s.rp = 0)
  /\ LET c == Cap(s) IN
     \A i \in 1..c :
        (IF s.wp <= c THEN ~(s.rp < i /\ i <= s.wp) ELSE ~((s.rp < i /\ i <= c) \/ i <= s.wp - c))
           => s.el[i] = Zero                     \* nothing is kept alive outside the visible part
SContents(s) == SSlices(s)[1] \o SSlices(s)[2]     \* refinement mapping: slice |-> FIFO sequence

(*                     CircularSlice, abstract level (sequence q)           *)
QFront(q)      == IF q = <<>> THEN Panic ELSE q[1]
QIndex(q, pos) == q[pos + 1]            \* specified for 0 <= pos < Len(q) only

---------------------------------------------------------------------------
(*                 state and actions (both levels advance together)        *)
VARIABLES t, m,          \* TreeMap: concrete tree, abstract map
          sl, qs         \* CircularSlice: sl[i] concrete, qs[i] abstract, i \in 1..2

treeVars  == <<t, m>>
sliceVars == <<sl, qs>>

TreeInit  == t = Nil /\ m = [k \in Keys |-> NoVal]
SliceInit == sl = <<ZeroSlice, ZeroSlice>> /\ qs = <<<<>>, <<>>>>

TSet(k, v)  == t' = Insert(t, k, v) /\ m' = MSet(m, k, v)
TDelete(k)  == t' = Remove(t, k)    /\ m' = MDel(m, k)
TUpdate(k, v) == t' = UpdateVal(t, k, v) /\ m' = (IF m[k] = NoVal THEN m ELSE MSet(m, k, v))   \* through GetPtr

Other(i) == 3 - i
SPush(i, x)    == sl' = [sl EXCEPT ![i] = SPushBack(sl[i], x)] /\ qs' = [qs EXCEPT ![i] = Append(qs[i], x)]
SPop(i)        == /\ qs[i] # <<>>
                  /\ sl' = [sl EXCEPT ![i] = SPopFront(sl[i])] /\ qs' = [qs EXCEPT ![i] = Tail(qs[i])]
SSetRef(i, p, x) == /\ 0 <= p /\ p < Len(qs[i])
                    /\ sl' = [sl EXCEPT ![i] = SSetAt(sl[i], p, x)] /\ qs' = [qs EXCEPT ![i][p + 1] = x]
SRes(i, n)     == sl' = [sl EXCEPT ![i] = SReserve(sl[i], n)] /\ UNCHANGED qs
SClr(i)        == sl' = [sl EXCEPT ![i] = SClear(sl[i])] /\ qs' = [qs EXCEPT ![i] = <<>>]
SDeepAssign(i) == sl' = [sl EXCEPT ![i] = sl[Other(i)]] /\ qs' = [qs EXCEPT ![i] = qs[Other(i)]]   \* s_i.DeepAssign(s_other)
SSwap          == sl' = <<sl[2], sl[1]>> /\ qs' = <<qs[2], qs[1]>>

---------------------------------------------------------------------------
(*                               invariants                                *)
TreeRefines == BST(t) /\ AbsMap(t) = m
TreeObsAgree ==
  /\ \A k \in Keys : CGet(t, k) = AGet(m, k)
  /\ CFront(t) = AFront(m) /\ CBack(t) = ABack(m)
  /\ CEmpty(t) = AEmpty(m) /\ CLenMoreThan1(t) = ALenMoreThan1(m)
TreeStoredOK   == StoredOK(t)
TreeLogHeight  == LogHeight(t)
TreeStrictAVL  == TrueBalanced(t)          \* holds iff LeafH = 1 (see MC_ContainersTree)
TreeImbalanceBound == MaxImbalance(t) <= ImbBound

SliceRefines == \A i \in 1..2 : SliceInv(sl[i]) /\ SContents(sl[i]) = qs[i]
SliceObsAgree ==
  \A i \in 1..2 :
    /\ SLen(sl[i]) = Len(qs[i])
    /\ SFront(sl[i]) = QFront(qs[i])
    /\ \A p \in 0..(Len(qs[i]) - 1) : SIndex(sl[i], p) = QIndex(qs[i], p)
    /\ SIndex(sl[i], -1) = Panic
=============================================================================
