--------------------------- MODULE TraceTL2Syntax ---------------------------
(***************************************************************************)
(* Trace validation (code -> spec) for the TL2 formatter, stateless        *)
(* parallel form.  Every event is one declaration as the REAL parser       *)
(* returned it (neutral AST) with the texts the real formatter wrote for   *)
(* it with the default and the canonical options.  EventOK: the texts are  *)
(* exactly FComb of the specification for that AST.                        *)
(* Bar = TRUE is the formatter of the specification; Bar = FALSE is used   *)
(* only to classify a deviation (one-variant union printed without its     *)
(* vertical bar).                                                          *)
(***************************************************************************)
EXTENDS TL2Syntax

CONSTANT Bar

Trace == ndJsonDeserialize("trace.ndjson")

VARIABLE i
Init == i \in 1..Len(Trace)
Next == UNCHANGED i

RECURSIVE WfType2(_)
WfArg2(a) == \/ Len(a.num) = 1 /\ a.t = <<>> /\ a.num[1][1] <= 65535
             \/ a.num = <<>> /\ Len(a.t) = 1 /\ WfType2(a.t[1])
WfType2(t) == IF t.br THEN /\ Len(t.ix) <= 1 /\ Len(t.el) = 1 /\ t.nm = "" /\ t.as = <<>>
                           /\ (\A k \in 1..Len(t.ix) : WfArg2(t.ix[k])) /\ WfType2(t.el[1])
              ELSE t.nm # "" /\ t.ix = <<>> /\ t.el = <<>> /\ \A k \in 1..Len(t.as) : WfArg2(t.as[k])
WfField2(f) == /\ WfType2(f.t) /\ (f.ign => ~f.opt)
WfDef(d, isRet) == \/ d.al /\ Len(d.t) = 1 /\ WfType2(d.t[1]) /\ ~d.un /\ d.fs = <<>> /\ d.vs = <<>>
                   \/ ~d.al /\ d.un /\ d.vs # <<>> /\ d.fs = <<>> /\ d.t = <<>>
                      /\ \A k \in 1..Len(d.vs) : /\ d.vs[k].nm # ""
                                                 /\ IF d.vs[k].al THEN Len(d.vs[k].t) = 1 /\ WfType2(d.vs[k].t[1]) /\ d.vs[k].fs = <<>>
                                                    ELSE d.vs[k].t = <<>> /\ \A m \in 1..Len(d.vs[k].fs) : WfField2(d.vs[k].fs[m]) /\ d.vs[k].fs[m].n # ""
                   \/ ~d.al /\ ~d.un /\ d.vs = <<>> /\ d.t = <<>>
                      /\ \A k \in 1..Len(d.fs) : WfField2(d.fs[k]) /\ (d.fs[k].n = "" => isRet /\ Len(d.fs) = 1)
WfComb2(c) == /\ c.nm # ""
              /\ IF c.fn THEN /\ c.mg # "" /\ c.def = <<>> /\ c.ta = <<>> /\ Len(c.ret) = 1 /\ WfDef(c.ret[1], TRUE)
                              /\ \A k \in 1..Len(c.args) : WfField2(c.args[k]) /\ c.args[k].n # ""
                 ELSE Len(c.def) = 1 /\ WfDef(c.def[1], FALSE) /\ c.args = <<>> /\ c.ret = <<>>

EventOK ==
  LET e == Trace[i] IN
  /\ e.ev = "comb" =>
        /\ WfComb2(e.ast)
        /\ FCombV(e.ast, DefaultOpts, Bar) = e.fmt
        /\ FCombV(e.ast, CanonicalOpts, Bar) = e.fmtc
  /\ e.ev = "file" =>              \* a whole (repository) file
        /\ \A k \in 1..Len(e.asts) : WfComb2(e.asts[k])
        /\ FFileV(e.asts, DefaultOpts, Bar) = e.fmt
        /\ FFileV(e.asts, CanonicalOpts, Bar) = e.fmtc
=============================================================================
