------------------------------ MODULE TraceCodec ------------------------------
(***************************************************************************)
(* Trace validation (code -> spec) for the codecs, stateless parallel      *)
(* form.  Every event records bytes the real code WROTE for some object    *)
(* (random filling, RPC extras, ...): [tn, fmt ("tl1" | "tl2"), b].  The   *)
(* event is a behaviour of the specification iff the bytes decode under    *)
(* the spec to a valid value that re-encodes to exactly these bytes; Emit  *)
(* prints what the other two encodings of that value must be, which the    *)
(* harness compares with what the code wrote for the same object.          *)
(***************************************************************************)
EXTENDS TLJson

Trace == ndJsonDeserialize("trace.ndjson")

VARIABLE i
Init == i \in 1..Len(Trace)
Next == UNCHANGED i

Decoded ==
  LET e == Trace[i] IN
  IF e.fmt = "tl1" THEN Dec1(e.tn, <<>>, e.b, 1, TRUE) ELSE Dec2(e.tn, e.b, 1, Len(e.b))

EventOK ==
  LET e == Trace[i]  d == Decoded IN
  /\ d.ok
  /\ d.pos = Len(e.b) + 1
  /\ IF e.fmt = "tl1"
     THEN Valid1(e.tn, <<>>, d.v) /\ Enc1(e.tn, <<>>, d.v, TRUE) = [ok |-> TRUE, b |-> e.b]
     ELSE Enc2(e.tn, d.v, FALSE) = e.b

Emit ==
  LET e == Trace[i]  d == Decoded IN
  PrintT(ToJson(<<"@@", [i |-> i, ok |-> d.ok,
     tl2 |-> IF d.ok /\ TY(e.tn).tl2 THEN Enc2(e.tn, d.v, FALSE) ELSE <<>>,
     json |-> IF d.ok THEN WJ(e.tn, <<>>, d.v, "canon") ELSE JObj(<<>>)]>>))
=============================================================================
