----------------------------- MODULE TraceUdpAcks -----------------------------
(***************************************************************************)
(* Trace validation (code -> spec) for udp.AcksToSend, stateful form.      *)
(* add  : the recorded AddAckRange must be UdpAcks!Add; the representation *)
(*        read back from the real object must equal the primed prefix /    *)
(*        ranges, satisfy RepInv and denote exactly S'.                    *)
(* ack  : header built into a fresh EncHeader = BuildAck, acknowledges     *)
(*        only recorded numbers.                                           *)
(* ackr : header built into the connection's long-lived EncHeader (stale   *)
(*        fields may survive): must still acknowledge only recorded ones.  *)
(* nack : ResendRequest = BuildNack, requests no recorded number.          *)
(* reset: next history.                                                    *)
(***************************************************************************)
EXTENDS UdpAcks, Json

Log == ndJsonDeserialize("trace.ndjson")

VARIABLE l

TraceInit == l = 1 /\ AcksInit

Event(e) ==
  CASE e.op = "reset" -> S' = {} /\ prefix' = 0 /\ ranges' = <<>>
    [] e.op = "add"   -> /\ Add(e.f, e.t)
                         /\ e.prefix = prefix' /\ e.ranges = ranges'
                         /\ RepInv(e.prefix, e.ranges)
                         /\ Denote(e.prefix, e.ranges) = S'
                         /\ e.holes = HaveHoles(ranges')
                         /\ e.inv = <<>>
    [] e.op = "ack"   -> /\ UNCHANGED vars
                         /\ e.h = BuildAck(prefix, ranges)
                         /\ AckedBy(e.h) \subseteq S
    [] e.op = "ackr"  -> /\ UNCHANGED vars
                         /\ AckedBy(e.h) \subseteq S
    [] e.op = "nack"  -> /\ UNCHANGED vars
                         /\ e.n = BuildNack(prefix, ranges)
                         /\ Requested(e.n) \cap S = {}

TraceNext == l <= Len(Log) /\ l' = l + 1 /\ Event(Log[l])

Reached == TLCGet("stats").diameter - 1
TraceAccepted ==
  /\ PrintT(ToJson(<<"@@", [reached |-> Reached, len |-> Len(Log)]>>))
  /\ Reached = Len(Log)
=============================================================================
