-------------------------- MODULE MC_ContainersSlice --------------------------
(***************************************************************************)
(* Exhaustive state graph of the CircularSlice part of Containers.         *)
(* Slice 1 receives PushBack / PopFront / Reserve / Clear; slice 2 changes *)
(* only through Swap and DeepAssign (Pair = TRUE), so every pair           *)
(* (state of 1, earlier state of 1) is a state.  The value pushed is a     *)
(* function of the queue (successor of its last element modulo ValMod), so *)
(* contents are determined by (first element, length) and the state space  *)
(* is the set of (cap, read_pos, write_pos) positions, including all       *)
(* wrapped ones, times ValMod.  js is the projection compared with the     *)
(* real objects after every transition.                                    *)
(***************************************************************************)
EXTENDS Containers, Json

CONSTANTS MaxCap,       \* capacities never exceed MaxCap
          ReserveSet,   \* arguments of Reserve
          ValMod,       \* pushed values cycle through 1..ValMod
          Pair          \* BOOLEAN: second slice, Swap and DeepAssign enabled

VARIABLE js

NextVal(q) == IF q = <<>> THEN 1 ELSE (q[Len(q)] % ValMod) + 1

OneProj(s) ==
  [el |-> s.el, rp |-> s.rp, wp |-> s.wp, len |-> SLen(s), cap |-> Cap(s),
   front |-> SFront(s),
   idx |-> [p \in 1..(Cap(s) + 2) |-> SIndex(s, p - 1)],
   idxneg |-> SIndex(s, -1),
   s1 |-> SSlices(s)[1], s2 |-> SSlices(s)[2],
   poppanic |-> SLen(s) = 0]
SliceProj(ss) == [s |-> <<OneProj(ss[1]), OneProj(ss[2])>>, alias |-> FALSE]

Init == TreeInit /\ SliceInit /\ js = ToJson(SliceProj(<<ZeroSlice, ZeroSlice>>))

GrowsTo(s) == IF SLen(s) = Cap(s) THEN 2 * Max(Cap(s), 4) ELSE Cap(s)

Rest == UNCHANGED treeVars /\ js' = ToJson(SliceProj(sl'))

Push(i)       == GrowsTo(sl[i]) <= MaxCap /\ SPush(i, NextVal(qs[i])) /\ Rest    \* the harness reads the value from the target
Pop(i)        == SPop(i) /\ Rest
Reserve(i, n) == SRes(i, n) /\ Rest
Clear(i)      == SClr(i) /\ Rest
DeepAssign(i) == Pair /\ SDeepAssign(i) /\ Rest
Swap          == Pair /\ SSwap /\ Rest

Next ==
  \/ Push(1)
  \/ Pop(1)
  \/ \E n \in ReserveSet : Reserve(1, n)
  \/ Clear(1)
  \/ \E i \in 1..2 : DeepAssign(i)
  \/ Swap

CapBound == \A i \in 1..2 : Cap(sl[i]) <= MaxCap
=============================================================================
