-------------------------- MODULE MC_ContainersSlice --------------------------
(***************************************************************************)
(* Exhaustive state graph of the CircularSlice part of Containers.         *)
(* Slice 1 receives PushBack / PopFront / Reserve / Clear; slice 2 changes *)
(* only through Swap and DeepAssign, so every pair (state of 1, earlier    *)
(* state of 1) with capacities <= PairCap is a state, next to all single   *)
(* states up to MaxCap.  The value pushed is a                             *)
(* function of the queue (successor of its last element modulo ValMod), so *)
(* contents are determined by (first element, length) and the state space  *)
(* is the set of (cap, read_pos, write_pos) positions, including all       *)
(* wrapped ones, times ValMod.  js is the projection compared with the     *)
(* real objects after every transition.                                    *)
(***************************************************************************)
EXTENDS Containers, Json

CONSTANTS MaxCap,       \* capacities never exceed MaxCap
          ReserveSet,   \* arguments of Reserve
          ValMod,       \* pushed values cycle through 1..ValMod
          PairCap       \* Swap / DeepAssign are explored among slices of capacity <= PairCap
                        \* (-1: never); while slice 2 is in use slice 1 stays within PairCap

VARIABLE js

NextVal(q) == IF q = <<>> THEN 1 ELSE (q[Len(q)] % ValMod) + 1

OneProj(s) ==
  [el |-> s.el, rp |-> s.rp, wp |-> s.wp, len |-> SLen(s), cap |-> Cap(s),
   front |-> SFront(s),
   idx |-> [p \in 1..(Cap(s) + 2) |-> SIndex(s, p - 1)],
   idxneg |-> SIndex(s, -1),
   s1 |-> SSlices(s)[1], s2 |-> SSlices(s)[2],
   poppanic |-> SLen(s) = 0]
SliceProj(ss) == [s |-> <<OneProj(ss[1]), OneProj(ss[2])>>, alias |-> FALSE]

Init == TreeInit /\ SliceInit /\ js = ToJson(SliceProj(<<ZeroSlice, ZeroSlice>>))

GrowsTo(s) == IF SLen(s) = Cap(s) THEN 2 * Max(Cap(s), 4) ELSE Cap(s)

Rest == UNCHANGED treeVars /\ js' = ToJson(SliceProj(sl'))

InUse(s) == s # ZeroSlice
Limit == IF InUse(sl[2]) THEN PairCap ELSE MaxCap
PairOK == Cap(sl[1]) <= PairCap /\ Cap(sl[2]) <= PairCap

Push(i)       == GrowsTo(sl[i]) <= Limit /\ SPush(i, NextVal(qs[i])) /\ Rest    \* the harness reads the value from the target
Pop(i)        == SPop(i) /\ Rest
Reserve(i, n) == Max(n, Cap(sl[i])) <= Limit /\ SRes(i, n) /\ Rest
Clear(i)      == SClr(i) /\ Rest
DeepAssign(i) == PairOK /\ SDeepAssign(i) /\ Rest
Swap          == PairOK /\ SSwap /\ Rest

Next ==
  \/ Push(1)
  \/ Pop(1)
  \/ \E n \in ReserveSet : Reserve(1, n)
  \/ Clear(1)
  \/ \E i \in 1..2 : DeepAssign(i)
  \/ Swap

CapBound == \A i \in 1..2 : Cap(sl[i]) <= MaxCap
=============================================================================
