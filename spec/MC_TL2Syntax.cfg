CONSTANTS
  Mode = "@MODE@"
  MaxToks = @MAXTOKS@
  TokSel = "@TOKSEL@"
  PruneToks = @PRUNE@
  EmitEvery = @EMITEVERY@
  MaxW = @MAXW@
  MaxCombs = @MAXCOMBS@
  MutW = @MUTW@
  LayoutSel = @LAYOUTS@
  Focus = @FOCUS@
  OneLine = 120
  UnionLine = 80
  LowerNames <- LowerNamesMC
  LongNamesLower = TRUE
INIT Init
NEXT Next
INVARIANTS Emit Laid2OK
CHECK_DEADLOCK FALSE
