------------------------------- MODULE UdpAcks -------------------------------
(***************************************************************************)
(* pkg/rpc/udp/acks.go: AcksToSend, the receiver's record of which packet  *)
(* numbers have arrived.                                                   *)
(*                                                                         *)
(*   abstract : S, the set of recorded numbers (naturals)                  *)
(*   concrete : prefix (EXCLUSIVE: all n < prefix are recorded) and ranges,*)
(*              a sequence of <<from, to>> (the linked list of ackRange),  *)
(*              advanced by a transcription of AddAckRange                 *)
(*   representation invariant : prefix < ranges[1].from, from <= to,       *)
(*              ranges[i].to + 1 < ranges[i+1].from (sorted, disjoint,     *)
(*              non-adjacent); refinement: Denote(prefix, ranges) = S.     *)
(*   headers  : BuildAck / BuildNegativeAck contents incl. the MaxAckSet   *)
(*              cut-offs; AckedBy(header) \subseteq S, Requested(nack)     *)
(*              \cap S = {}.                                               *)
(* Numbers are wrapping-free: to + 1 never reaches 2^32 (the harness adds  *)
(* an offset close to 2^32 to a model over small numbers to test that).    *)
(***************************************************************************)
EXTENDS Integers, Sequences, FiniteSets, TLC

CONSTANT MaxAckSet        \* 50 in acks.go

Max(a, b) == IF a > b THEN a ELSE b
Min(a, b) == IF a < b THEN a ELSE b

From(r) == r[1]
To(r)   == r[2]

---------------------------------------------------------------------------
(* AddAckRange, concrete level *)

(* The linked list is the sequence rs; pointers into it are indices (nil = Len(rs) + 1
   for tmpRange / firstRange, 0 for prevRange), so that TLC never copies tails. *)

(* the loop "for a.firstRange != nil && a.firstRange.ackFrom <= a.ackPrefix":
   i = firstRange, p = ackPrefix *)
RECURSIVE Absorb(_, _, _)
Absorb(p, rs, i) == IF i <= Len(rs) /\ From(rs[i]) <= p
                    THEN Absorb(Max(p, To(rs[i]) + 1), rs, i + 1)
                    ELSE <<p, SubSeq(rs, i, Len(rs))>>

(* the list walk: j = prevRange, i = tmpRange, f = (possibly lowered) ackFrom.
   Nodes j+1 .. i-1 have been unlinked. *)
RECURSIVE Walk(_, _, _, _, _)
Walk(rs, j, i, f, t) ==
  IF i > Len(rs) \/ t + 1 < From(rs[i])
    THEN SubSeq(rs, 1, j) \o <<<<f, t>>>> \o SubSeq(rs, i, Len(rs))        \* new node between prev and tmp
  ELSE IF To(rs[i]) + 1 < f
    THEN Walk(rs, i, i + 1, f, t)                                          \* tmpRange is entirely below
  ELSE IF i = Len(rs) \/ t + 1 < From(rs[i + 1])
    THEN SubSeq(rs, 1, j) \o <<<<Min(From(rs[i]), f), Max(To(rs[i]), t)>>>> \o SubSeq(rs, i + 1, Len(rs))   \* widen tmpRange
  ELSE Walk(rs, j, i + 1, Min(From(rs[i]), f), t)                          \* unlink tmpRange, carry its from

AddRange(p, rs, f, t) ==        \* <<prefix', ranges'>>
  IF f <= p THEN Absorb(Max(p, t + 1), rs, 1)
  ELSE IF rs = <<>> THEN <<p, <<<<f, t>>>>>>
  ELSE <<p, Walk(rs, 0, 1, f, t)>>

---------------------------------------------------------------------------
(* representation invariant and refinement mapping *)
RepInv(p, rs) ==
  /\ p >= 0
  /\ \A i \in 1..Len(rs) : From(rs[i]) <= To(rs[i])
  /\ rs # <<>> => p < From(rs[1])
  /\ \A i \in 1..(Len(rs) - 1) : To(rs[i]) + 1 < From(rs[i + 1])
Denote(p, rs) == (0..(p - 1)) \cup UNION {From(rs[i])..To(rs[i]) : i \in 1..Len(rs)}

(* the canonical representation of a set, computed independently of AddRange *)
CanonPrefix(S) == CHOOSE p \in 0..(Cardinality(S)) : p \notin S /\ \A q \in 0..(p - 1) : q \in S
RECURSIVE SetToSeq(_)
SetToSeq(T) == IF T = {} THEN <<>> ELSE LET x == CHOOSE x \in T : TRUE IN <<x>> \o SetToSeq(T \ {x})
Sorted(T) == SortSeq(SetToSeq(T), <)
CanonRanges(S) ==
  LET p  == CanonPrefix(S)
      st == Sorted({x \in S : x > p /\ (x - 1) \notin S})     \* first numbers of the runs
      en == Sorted({x \in S : x > p /\ (x + 1) \notin S})     \* last numbers of the runs
  IN [i \in 1..Len(st) |-> <<st[i], en[i]>>]

---------------------------------------------------------------------------
(* headers *)
HaveHoles(rs) == rs # <<>>

(* numbers of the ranges rs[i..], in order, cut off after n of them *)
RECURSIVE Flatten(_, _, _)
Flatten(rs, i, n) ==
  IF i > Len(rs) \/ n <= 0 THEN <<>>
  ELSE LET w == Min(To(rs[i]) - From(rs[i]) + 1, n) IN
       [k \in 1..w |-> From(rs[i]) + k - 1] \o Flatten(rs, i + 1, n - w)

(* BuildAck on a fresh EncHeader *)
BuildAck(p, rs) ==
  [hasPrefix |-> p > 0,
   prefix    |-> IF p > 0 THEN p - 1 ELSE 0,            \* PacketAckPrefix is INCLUSIVE on the wire
   hasRange  |-> HaveHoles(rs),
   from      |-> IF HaveHoles(rs) THEN From(rs[1]) ELSE 0,
   to        |-> IF HaveHoles(rs) THEN To(rs[1]) ELSE 0,
   hasSet    |-> HaveHoles(rs) /\ Len(rs) > 1,
   set       |-> IF HaveHoles(rs) THEN Flatten(rs, 2, MaxAckSet) ELSE <<>>]

(* BuildNegativeAck on a fresh ResendRequest: the holes, at most MaxAckSet of them *)
BuildNack(p, rs) ==
  IF ~HaveHoles(rs) THEN <<>>
  ELSE <<<<p, From(rs[1]) - 1>>>> \o
       [i \in 1..Min(Len(rs) - 1, MaxAckSet - 1) |-> <<To(rs[i]) + 1, From(rs[i + 1]) - 1>>]

AckedBy(h) == (IF h.hasPrefix THEN 0..h.prefix ELSE {})
                \cup (IF h.hasRange THEN h.from..h.to ELSE {})
                \cup {h.set[i] : i \in 1..Len(h.set)}
Requested(n) == UNION {n[i][1]..n[i][2] : i \in 1..Len(n)}

---------------------------------------------------------------------------
VARIABLES S, prefix, ranges

vars == <<S, prefix, ranges>>

AcksInit == S = {} /\ prefix = 0 /\ ranges = <<>>

Add(f, t) ==
  /\ f <= t
  /\ S' = S \cup (f..t)
  /\ LET r == AddRange(prefix, ranges, f, t) IN prefix' = r[1] /\ ranges' = r[2]

(* invariants *)
Exact       == Denote(prefix, ranges) = S
Represented == RepInv(prefix, ranges)
Canonical   == prefix = CanonPrefix(S) /\ ranges = CanonRanges(S)
AckSound    == AckedBy(BuildAck(prefix, ranges)) \subseteq S
NackSound   == /\ Requested(BuildNack(prefix, ranges)) \cap S = {}
               /\ \A i \in 1..Len(BuildNack(prefix, ranges)) :
                     BuildNack(prefix, ranges)[i][1] <= BuildNack(prefix, ranges)[i][2]
CutOffs     == /\ Len(BuildAck(prefix, ranges).set) <= MaxAckSet
               /\ Len(BuildNack(prefix, ranges)) <= MaxAckSet
(* below the cut-offs the headers are complete: everything recorded is acknowledged,
   everything missing below the last range is requested *)
AckComplete ==
  LET h == BuildAck(prefix, ranges) IN
  Len(h.set) < MaxAckSet => AckedBy(h) = S
NackComplete ==
  LET n == BuildNack(prefix, ranges) IN
  (ranges # <<>> /\ Len(n) < MaxAckSet) => Requested(n) = (0..To(ranges[Len(ranges)])) \ S
=============================================================================
