---------------------------- MODULE MC_TLDerive ----------------------------
(***************************************************************************)
(* Derivations of TL1 schemas as a state machine: states are (partial)     *)
(* derivations built production by production; a derivation is bounded by  *)
(* its weight (number of non-default choices), so every combination of up  *)
(* to MaxW features is generated and every complete derivation is a        *)
(* parseable schema by construction.  A complete derivation is laid out    *)
(* (Layout: AST x layout -> text) or mutated (Mutate: edits of its token    *)
(* sequence).  Emit prints every test case with its specified outcome.     *)
(***************************************************************************)
EXTENDS TLSyntax

CONSTANTS MaxW,        \* weight bound
          MaxCombs,    \* combinators per schema
          MutW,        \* schemas of weight < MutW are mutated (0 = none)
          LayoutSel,   \* indices of the layouts applied to every complete derivation
          Focus,       \* TRUE = the initial states are the complete derivations of ArithFocus (arithmetic in every
                       \*        position that takes it); with MaxW = 0 only Layout and Mutate act on them
          SemNames,    \* with Sem: TRUE = the name domain of the listing rule (namespaced constructors / functions /
                       \*           type names, short names equal to the primitive wrappers int long float double string)
          Sem          \* TRUE = only schemas the compiler accepts after the prelude (canonical listing)

VARIABLE st

Alphabet == Alphabet1
Punct == Punct1Toks

---------------------------------------------------------------------------
NoCombP == [mods |-> <<>>, ns |-> "", nm |-> "", tag |-> "", ta |-> <<>>, bi |-> FALSE, fs |-> <<>>, fn |-> FALSE,
            dns |-> "", dnm |-> "", da |-> <<>>, res |-> <<>>]
(* pools of the derivation; the weight of a choice is the number of the sub-pool *)
LowerNamesMC == {"a", "b", "b1", "c", "int", "long", "float", "double", "string", "vector", "tuple", "pair", "v", "n", "x", "y", "z", "t", "k"}

TyAtoms(w) == CASE w = 0 -> {Atom("", "int")}
                [] w = 1 -> {Atom("", "Int"), Atom("ns", "v"), Atom("ns", "V"), Hash}
                [] OTHER -> {}
ArithW(w) == CASE w = 0 -> {ArgN(<<N(3)>>)}
               [] w = 1 -> {ArgN(<<N(1), N(2)>>), ArgN(<<NMax>>), ArgN(<<N(0)>>)}
               [] w = 2 -> {ArgN(<<<<65535, 65533>>, N(1)>>), ArgN(<<N(1), N(0), N(65536)>>)}
               [] OTHER -> {}
MaxTW == 4
Min2(a, b) == IF a < b THEN a ELSE b
(* types of weight exactly w, given T = <<types of weight 0, ..., types of weight w - 1>> *)
TyLevel(w, T) ==
  LET ArgW(v) == {ArgT(t) : t \in T[v + 1]} \cup ArithW(v)
      Heads(v) == {t \in TyAtoms(v) : t.nm # "#"}
      Bares == IF w < 1 THEN {} ELSE {[t EXCEPT !.b = TRUE] : t \in {u \in T[w] : ~u.b /\ u.nm # "#"}}
      App1 == IF w < 1 THEN {}
              ELSE UNION {{[h EXCEPT !.as = <<a>>] : h \in Heads(wh), a \in ArgW(w - 1 - wh)} : wh \in 0..Min2(1, w - 1)}
      App2 == IF w < 2 THEN {}
              ELSE UNION {UNION {{[h EXCEPT !.as = <<a, b>>] : h \in Heads(wh), a \in ArgW(wa), b \in ArgW(w - 2 - wh - wa)}
                                 : wa \in 0..(w - 2 - wh)} : wh \in 0..Min2(1, w - 2)}
  IN TyAtoms(w) \cup Bares \cup App1 \cup App2
Ty0 == TyLevel(0, <<>>)
Ty1 == TyLevel(1, <<Ty0>>)
Ty2 == TyLevel(2, <<Ty0, Ty1>>)
Ty3 == TyLevel(3, <<Ty0, Ty1, Ty2>>)
Ty4 == TyLevel(4, <<Ty0, Ty1, Ty2, Ty3>>)
TyTab == <<Ty0, Ty1, Ty2, Ty3, Ty4>>
TyW(w) == TyTab[w + 1]

FNames(w) == CASE w = 0 -> {"x"} [] w = 1 -> {"", "Y"} [] OTHER -> {}
FMasks(w) == CASE w = 0 -> {<<>>} [] w = 1 -> {Mask("n", N(0))} [] w = 2 -> {Mask("n", N(31)), Mask("Y", NMax)} [] OTHER -> {}
FExcl(w)  == CASE w = 0 -> {FALSE} [] w = 1 -> {TRUE} [] OTHER -> {}
FScale(w) == CASE w = 0 -> {[sk |-> "none", sn |-> "", sa |-> <<>>]}
               [] w = 1 -> {[sk |-> "name", sn |-> "n", sa |-> <<>>], [sk |-> "ar", sn |-> "", sa |-> <<N(3)>>]}
               [] w = 2 -> {[sk |-> "ar", sn |-> "", sa |-> <<N(1), N(2)>>], [sk |-> "name", sn |-> "Y", sa |-> <<>>]}
               [] OTHER -> {}
Splits3(w) == {<<a, b, c>> \in (0..w) \X (0..w) \X (0..w) : a + b + c = w}
MaxFW == 5
(* Every pool is a table of zero-arity definitions, which TLC evaluates once.                                    *)
(* plain fields of weight w >= 1 (the field itself costs 1)                                                      *)
PlainGen(w) == UNION {UNION {{Fld(n, m, ex, t) : n \in FNames(s[1]), m \in FMasks(s[2]), ex \in FExcl(s[3]), t \in TyW(w - 1 - v)}
                             : s \in Splits3(v)} : v \in 0..(w - 1)}
P1 == PlainGen(1)
P2 == PlainGen(2)
P3 == PlainGen(3)
P4 == PlainGen(4)
P5 == PlainGen(5)
PlainTab == <<P1, P2, P3, P4, P5>>
PlainW(w) == IF w < 1 THEN {} ELSE PlainTab[w]
(* repetitions: cost 1 (field) + 1 (repetition) + name/mask/excl + scale + body; the body holds plain fields and *)
(* at most one nested repetition                                                                                 *)
RepOf(hd, sc, body) == FldRep(hd[1], hd[2], hd[3], sc.sk, sc.sn, sc.sa, body)
H0 == UNION {{<<n, m, ex>> : n \in FNames(s[1]), m \in FMasks(s[2]), ex \in FExcl(s[3])} : s \in Splits3(0)}
H1 == UNION {{<<n, m, ex>> : n \in FNames(s[1]), m \in FMasks(s[2]), ex \in FExcl(s[3])} : s \in Splits3(1)}
H2 == UNION {{<<n, m, ex>> : n \in FNames(s[1]), m \in FMasks(s[2]), ex \in FExcl(s[3])} : s \in Splits3(2)}
H3 == UNION {{<<n, m, ex>> : n \in FNames(s[1]), m \in FMasks(s[2]), ex \in FExcl(s[3])} : s \in Splits3(3)}
HeadTab == <<H0, H1, H2, H3>>
Heads3(v) == HeadTab[v + 1]
InnerGen(w) == IF w < 2 THEN {}
               ELSE UNION {{RepOf(hd, sc, body) : hd \in Heads3(s[1]), sc \in FScale(s[2]),
                                                 body \in (IF s[3] = 0 THEN {<<>>} ELSE {<<f>> : f \in PlainW(s[3])})}
                           : s \in Splits3(w - 2)}
I2 == InnerGen(2)
I3 == InnerGen(3)
InnerTab == <<{}, I2, I3>>
InnerRepW(w) == IF w < 1 \/ w > 3 THEN {} ELSE InnerTab[w]
BodiesGen(w) == (IF w = 0 THEN {<<>>} ELSE {})
                \cup {<<f>> : f \in PlainW(w) \cup InnerRepW(w)}
                \cup UNION {{<<f, g>> : f \in PlainW(a), g \in PlainW(w - a) \cup InnerRepW(w - a)} : a \in 1..(w - 1)}
B0 == BodiesGen(0)
B1 == BodiesGen(1)
B2 == BodiesGen(2)
B3 == BodiesGen(3)
BodyTab == <<B0, B1, B2, B3>>
BodiesW(w) == BodyTab[w + 1]
RepW(w) == IF w < 2 THEN {}
           ELSE UNION {{RepOf(hd, sc, body) : hd \in Heads3(s[1]), sc \in FScale(s[2]), body \in BodiesW(s[3])} : s \in Splits3(w - 2)}
F1 == PlainW(1) \cup RepW(1)
F2 == PlainW(2) \cup RepW(2)
F3 == PlainW(3) \cup RepW(3)
F4 == PlainW(4) \cup RepW(4)
F5 == PlainW(5) \cup RepW(5)
FieldsW == <<F1, F2, F3, F4, F5>>
ASSUME PrintT(<<"pool sizes: types", Cardinality(Ty0), Cardinality(Ty1), Cardinality(Ty2), Cardinality(Ty3), Cardinality(Ty4),
                "fields", Cardinality(F1), Cardinality(F2), Cardinality(F3), Cardinality(F4), Cardinality(F5)>>)

ConsNames(w) == CASE w = 0 -> {<<"", "a">>} [] w = 1 -> {<<"ns", "b1">>} [] OTHER -> {}
DeclNames(w) == CASE w = 0 -> {<<"", "A">>} [] w = 1 -> {<<"ns", "B_2">>} [] OTHER -> {}
Tags(w)      == CASE w = 0 -> {""} [] w = 1 -> {"1234abcd"} [] w = 2 -> {"00000000", "ffffffff"} [] OTHER -> {}
ModSeqs(w)   == CASE w = 0 -> {<<>>} [] w = 1 -> {<<"read">>} [] w = 2 -> {<<"kphp", "any">>, <<"readwrite">>} [] OTHER -> {}
TArgs(w)     == CASE w = 1 -> {[n |-> "t", nat |-> FALSE], [n |-> "n", nat |-> TRUE]}
                  [] w = 2 -> {[n |-> "Y", nat |-> TRUE]} [] OTHER -> {}

(* pools for Sem = TRUE: schemas that the compiler accepts after the fixed prelude of the harness       *)
(* (int, long, string, nat wrappers, vector, tuple, pair, Bool): closed types, masks and sizes that      *)
(* refer to earlier #-fields, one type per repetition body                                               *)
SemTy(w) == CASE w = 0 -> {Atom("", "int")}
              [] w = 1 -> {Atom("", "string"), Atom("", "Int"), Ty(TRUE, "", "Int", <<>>), Atom("", "long")}
              [] w = 2 -> {Ty(FALSE, "", "vector", <<ArgT(Atom("", "int"))>>), Ty(FALSE, "", "Vector", <<ArgT(Atom("", "string"))>>),
                           Ty(FALSE, "", "tuple", <<ArgT(Atom("", "int")), ArgN(<<N(3)>>)>>),
                           Ty(TRUE, "", "Vector", <<ArgT(Atom("", "int"))>>)}
              [] w = 3 -> {Ty(FALSE, "", "tuple", <<ArgT(Atom("", "int")), ArgN(<<N(1), N(2)>>)>>),
                           Ty(FALSE, "", "pair", <<ArgT(Atom("", "int")), ArgT(Ty(FALSE, "", "vector", <<ArgT(Atom("", "long"))>>))>>),
                           Ty(FALSE, "", "vector", <<ArgT(Ty(TRUE, "", "Pair", <<ArgT(Atom("", "int")), ArgT(Atom("", "Int"))>>))>>)}
              [] OTHER -> {}
SemFields(w, nats, n) ==      \* nats: names of earlier #-fields; n: index of the new field
  LET nm == CASE n = 1 -> "x" [] n = 2 -> "y" [] OTHER -> "z" IN
     {Fld(nm, <<>>, FALSE, t) : t \in SemTy(w - 1)}
  \cup (IF w = 2 THEN {Fld(nm, <<>>, FALSE, Hash)} ELSE {})
  \cup (IF w >= 2 /\ nats # <<>> THEN {Fld(nm, Mask(nats[1], N(b)), FALSE, t) : t \in SemTy(w - 2), b \in {0}} ELSE {})
  \cup (IF w >= 3 /\ nats # <<>> THEN {Fld(nm, Mask(nats[1], N(31)), FALSE, t) : t \in SemTy(w - 3)} ELSE {})
  \cup (IF w >= 3 /\ nats # <<>> THEN {FldRep(nm, <<>>, FALSE, "name", nats[Len(nats)], <<>>, <<Fld("", <<>>, FALSE, t)>>) : t \in SemTy(w - 3)} ELSE {})
  \cup (IF w >= 3 THEN {FldRep(nm, <<>>, FALSE, "ar", "", <<N(3)>>, <<Fld("", <<>>, FALSE, t)>>) : t \in SemTy(w - 3)} ELSE {})
  \cup (IF w >= 4 THEN {FldRep(nm, <<>>, FALSE, "ar", "", <<N(1), N(2)>>, <<Fld("", <<>>, FALSE, t)>>) : t \in SemTy(w - 4)} ELSE {})

(* names of derived combinators when Sem = TRUE: a / b by position; with SemNames also the names that matter for *)
(* the rule "the wrappers int long float double string are listed by the fixed header, not again": namespaced   *)
(* names and namespaced names whose SHORT name is a wrapper name (an un-namespaced wrapper name other than the   *)
(* prelude's own declarations is refused by the compiler: "type float already exists")                           *)
UsedNames(done) == {<<done[i].ns, done[i].nm>> : i \in 1..Len(done)}
SemConsNames(w, done) ==
  (CASE w = 0 -> {<<"", IF done = <<>> THEN "a" ELSE "b">>}
     [] w = 1 -> IF SemNames THEN {<<"ns", "c">>, <<"ns", "string">>, <<"ns", "int">>, <<"ns", "long">>, <<"ns", "double">>, <<"ns", "float">>} ELSE {}
     [] OTHER -> {}) \ UsedNames(done)
(* the compiler wants the namespace of a constructor to be the namespace of its type *)
SemDeclNames(w, done, cur) ==
  IF cur.ns # "" THEN (IF w = 0 THEN {<<cur.ns, "A">>, <<cur.ns, "String">>} ELSE {})
  ELSE IF w = 0 THEN {<<"", IF done = <<>> THEN "A" ELSE "B">>} ELSE {}

(* the fixed prelude that precedes a derived schema when Sem = TRUE *)
Prelude == <<
  [NoCombP EXCEPT !.nm = "int", !.tag = "a8509bda", !.bi = TRUE, !.dnm = "Int"],
  [NoCombP EXCEPT !.nm = "long", !.tag = "22076cba", !.bi = TRUE, !.dnm = "Long"],
  [NoCombP EXCEPT !.nm = "string", !.tag = "b5286e24", !.bi = TRUE, !.dnm = "String"],
  [NoCombP EXCEPT !.nm = "vector", !.tag = "1cb5c415", !.ta = <<[n |-> "t", nat |-> FALSE]>>,
                  !.fs = <<Fld("", <<>>, FALSE, Hash), FldRep("", <<>>, FALSE, "none", "", <<>>, <<Fld("", <<>>, FALSE, Atom("", "t"))>>)>>,
                  !.dnm = "Vector", !.da = <<"t">>],
  [NoCombP EXCEPT !.nm = "tuple", !.tag = "9770768a", !.ta = <<[n |-> "t", nat |-> FALSE], [n |-> "n", nat |-> TRUE]>>,
                  !.fs = <<FldRep("", <<>>, FALSE, "none", "", <<>>, <<Fld("", <<>>, FALSE, Atom("", "t"))>>)>>,
                  !.dnm = "Tuple", !.da = <<"t", "n">>],
  [NoCombP EXCEPT !.nm = "pair", !.ta = <<[n |-> "X", nat |-> FALSE], [n |-> "Y", nat |-> FALSE]>>,
                  !.fs = <<Fld("a", <<>>, FALSE, Atom("", "X")), Fld("b", <<>>, FALSE, Atom("", "Y"))>>,
                  !.dnm = "Pair", !.da = <<"X", "Y">>] >>

---------------------------------------------------------------------------
Layouts == <<
  [sep |-> "min",  app |-> "paren", par |-> FALSE, bin |-> FALSE, ar |-> "plain", arrow |-> FALSE, lead |-> FALSE],
  [sep |-> "sp",   app |-> "angle", par |-> FALSE, bin |-> FALSE, ar |-> "paren", arrow |-> TRUE,  lead |-> TRUE],
  [sep |-> "nl",   app |-> "paren", par |-> TRUE,  bin |-> TRUE,  ar |-> "fold",  arrow |-> FALSE, lead |-> TRUE],
  [sep |-> "cmt",  app |-> "mix",   par |-> FALSE, bin |-> TRUE,  ar |-> "lz",    arrow |-> TRUE,  lead |-> FALSE],
  [sep |-> "mix",  app |-> "angle", par |-> TRUE,  bin |-> FALSE, ar |-> "plain", arrow |-> FALSE, lead |-> FALSE],
  [sep |-> "crlf", app |-> "paren", par |-> FALSE, bin |-> TRUE,  ar |-> "paren", arrow |-> FALSE, lead |-> FALSE],
  [sep |-> "tab",  app |-> "mix",   par |-> TRUE,  bin |-> FALSE, ar |-> "fold",  arrow |-> TRUE,  lead |-> TRUE],
  [sep |-> "sp",   app |-> "paren", par |-> FALSE, bin |-> FALSE, ar |-> "lp",    arrow |-> FALSE, lead |-> FALSE],
  [sep |-> "min",  app |-> "angle", par |-> FALSE, bin |-> FALSE, ar |-> "rp",    arrow |-> FALSE, lead |-> FALSE],
  [sep |-> "nl",   app |-> "mix",   par |-> FALSE, bin |-> TRUE,  ar |-> "pp",    arrow |-> TRUE,  lead |-> FALSE] >>
ASSUME LayoutSel \subseteq 1..Len(Layouts)

Expected(cs, lay) == IF lay.ar = "fold" THEN [i \in 1..Len(cs) |-> FoldC(cs[i])] ELSE cs

---------------------------------------------------------------------------
NoComb == [mods |-> <<>>, ns |-> "", nm |-> "", tag |-> "", ta |-> <<>>, bi |-> FALSE, fs |-> <<>>, fn |-> FALSE,
           dns |-> "", dnm |-> "", da |-> <<>>, res |-> <<>>]

(* arithmetic in every position of the grammar that takes it: argument of an application (alone, after a type, *)
(* nested), repetition scale (outer and nested), inside a repetition body, after a field mask, function result *)
IntOf(args) == Ty(FALSE, "", "int", args)
Ar1 == <<N(1)>>
Ar2 == <<N(1), N(2)>>
Ar3 == <<N(1), N(2), N(3)>>
BodyInt == <<Fld("", <<>>, FALSE, Atom("", "int"))>>
TypeComb(fs) == [NoComb EXCEPT !.nm = "a", !.dnm = "A", !.fs = fs]
ArithFocus ==
     {TypeComb(<<Fld("x", <<>>, FALSE, IntOf(<<ArgN(e)>>))>>) : e \in {Ar1, Ar2, Ar3}}
  \cup {TypeComb(<<Fld("x", <<>>, FALSE, IntOf(<<ArgT(Atom("", "int")), ArgN(e)>>))>>) : e \in {Ar1, Ar2}}
  \cup {TypeComb(<<Fld("x", <<>>, FALSE, IntOf(<<ArgN(e), ArgT(Atom("", "int"))>>))>>) : e \in {Ar2}}
  \cup {TypeComb(<<Fld("x", <<>>, FALSE, IntOf(<<ArgT(IntOf(<<ArgN(e)>>))>>))>>) : e \in {Ar1, Ar2}}
  \cup {TypeComb(<<FldRep("x", <<>>, FALSE, "ar", "", e, BodyInt)>>) : e \in {Ar1, Ar2, Ar3}}
  \cup {TypeComb(<<Fld("n", <<>>, FALSE, Hash), FldRep("x", <<>>, FALSE, "ar", "", e, BodyInt)>>) : e \in {Ar2}}
  \cup {TypeComb(<<FldRep("x", <<>>, FALSE, "none", "", <<>>, <<Fld("y", <<>>, FALSE, IntOf(<<ArgN(e)>>))>>)>>) : e \in {Ar1, Ar2}}
  \cup {TypeComb(<<FldRep("x", <<>>, FALSE, "none", "", <<>>, <<FldRep("y", <<>>, FALSE, "ar", "", e, BodyInt)>>)>>) : e \in {Ar2}}
  \cup {TypeComb(<<Fld("n", <<>>, FALSE, Hash), Fld("x", Mask("n", N(0)), FALSE, IntOf(<<ArgN(e)>>))>>) : e \in {Ar2}}
  \cup {[NoComb EXCEPT !.nm = "a", !.fn = TRUE, !.res = <<IntOf(<<ArgN(e)>>)>>] : e \in {Ar1, Ar2, Ar3}}

Init == IF Focus THEN st \in {[ph |-> "idle", done |-> <<c>>, cur |-> NoComb, w |-> 0] : c \in ArithFocus}
        ELSE st = [ph |-> "start", done |-> <<>>, cur |-> NoComb, w |-> 0]

(* ---- mode derive: one action per production ---- *)
Left == MaxW - st.w
NatNames(c) == [i \in 1..Len(SelectSeq(c.fs, LAMBDA f : f.rep = <<>> /\ f.t[1].nm = "#" /\ f.m = <<>>)) |->
                  SelectSeq(c.fs, LAMBDA f : f.rep = <<>> /\ f.t[1].nm = "#" /\ f.m = <<>>)[i].n]

DStart == /\ st.ph \in {"start", "idle"} /\ Len(st.done) < MaxCombs
          /\ \E wn \in 0..1, wt \in 0..2, wm \in 0..2, fn \in BOOLEAN :
               LET extra == IF st.done = <<>> THEN 0 ELSE 1
                   cost == wn + wt + wm + (IF fn THEN 1 ELSE 0) + extra IN
               /\ cost <= Left
               /\ (Sem => wt <= 1)
               /\ \E nm \in (IF Sem THEN SemConsNames(wn, st.done) ELSE ConsNames(wn)), tag \in Tags(wt), mods \in ModSeqs(wm) :
                    st' = [st EXCEPT !.ph = "head", !.w = @ + cost,
                             !.cur = [NoComb EXCEPT !.ns = nm[1], !.nm = nm[2],
                                                    !.tag = tag, !.mods = mods, !.fn = fn]]
DTArg == /\ st.ph = "head" /\ Len(st.cur.ta) < 2 /\ ~Sem
         /\ \E w \in 1..2 : /\ w <= Left
                            /\ \E a \in TArgs(w) : /\ \A i \in 1..Len(st.cur.ta) : st.cur.ta[i].n # a.n
                                                   /\ st' = [st EXCEPT !.w = @ + w, !.cur.ta = Append(@, a)]
DBuiltin == /\ st.ph = "head" /\ ~st.cur.fn /\ Left >= 1 /\ ~Sem
            /\ st' = [st EXCEPT !.ph = "body", !.w = @ + 1, !.cur.bi = TRUE]
DField == /\ st.ph \in {"head", "fields"} /\ Len(st.cur.fs) < 3
          /\ \E w \in 1..MaxFW : /\ w <= Left
                                 /\ \E f \in (IF Sem THEN SemFields(w, NatNames(st.cur), Len(st.cur.fs) + 1) ELSE FieldsW[w]) :
                                      st' = [st EXCEPT !.ph = "fields", !.w = @ + w, !.cur.fs = Append(@, f)]
DFinishType == /\ st.ph \in {"head", "fields", "body"} /\ ~st.cur.fn
               /\ \E wd \in 0..1 : /\ wd <= Left
                                   /\ \E dn \in (IF Sem THEN SemDeclNames(wd, st.done, st.cur) ELSE DeclNames(wd)), withArgs \in BOOLEAN :
                                        /\ (withArgs => st.cur.ta # <<>>)
                                        /\ (Sem => ~withArgs)
                                        /\ LET c == [st.cur EXCEPT !.dns = dn[1],
                                                                   !.dnm = dn[2],
                                                                   !.da = IF withArgs THEN [i \in 1..Len(st.cur.ta) |-> st.cur.ta[i].n] ELSE <<>>]
                                           IN st' = [st EXCEPT !.ph = "idle", !.w = @ + wd, !.done = Append(@, c), !.cur = NoComb]
DFinishFn == /\ st.ph \in {"head", "fields"} /\ st.cur.fn
             /\ \E w \in 0..MaxTW : /\ w <= Left
                                    /\ \E t \in (IF Sem THEN {u \in SemTy(w) : ~u.b /\ ~LowerStart(u.nm)} ELSE TyW(w)) :   \* the compiler wants a boxed result
                                         st' = [st EXCEPT !.ph = "idle", !.w = @ + w,
                                                  !.done = Append(@, [st.cur EXCEPT !.res = <<t>>]), !.cur = NoComb]

(* a complete derivation is laid out ... *)
Layout == /\ st.ph = "idle"
          /\ \E l \in LayoutSel : st' = [ph |-> "laid", done |-> st.done, w |-> st.w, l |-> l]
(* ... or its significant tokens (plain layout) are mutated and written with single spaces *)
(* ... in the focus mode the parenthesised spellings of arithmetic are mutated as well *)
MutLayouts == IF Focus THEN {1, 9} ELSE {1}
MutAlphabet == IF Focus THEN Core1 ELSE Alphabet      \* the focus mode replaces by one lexeme per token kind
Mutate == /\ st.ph = "idle" /\ st.w < MutW /\ ~Sem
          /\ \E ml \in MutLayouts : LET s == SigToks(st.done, Layouts[ml]) IN
             \/ \E i \in 1..Len(s), q \in OperandEdits : s[i].k = "num" /\ st' = [ph |-> "mut", how |-> "operand", sig |-> MutSplice(s, i, q)]
             \/ \E i \in 1..Len(s) : st' = [ph |-> "mut", how |-> "delete", sig |-> MutDelete(s, i)]
             \/ \E i \in 1..Len(s) : st' = [ph |-> "mut", how |-> "dup", sig |-> MutDup(s, i)]
             \/ \E i \in 1..(Len(s) - 1) : st' = [ph |-> "mut", how |-> "swap", sig |-> MutSwap(s, i)]
             \/ \E i \in 1..(Len(s) - 1) : st' = [ph |-> "mut", how |-> "trunc", sig |-> MutTrunc(s, i)]
             \/ \E i \in 1..Len(s), t \in MutAlphabet : st' = [ph |-> "mut", how |-> "replace", sig |-> MutReplace(s, i, t)]
             \/ \E i \in 1..Len(s), t \in Punct : st' = [ph |-> "mut", how |-> "insert", sig |-> MutInsert(s, i, t)]

Next == DStart \/ DTArg \/ DBuiltin \/ DField \/ DFinishType \/ DFinishFn \/ Layout \/ Mutate

---------------------------------------------------------------------------
TokPairs(toks) == [i \in 1..Len(toks) |-> <<toks[i].k, toks[i].s>>]

Payload ==
  CASE st.ph = "mut" -> [ph |-> "mut", how |-> st.how, toks |-> TokPairs(Spaced(st.sig)), exp |-> ExpectSpaced(st.sig, 1)]
    [] st.ph = "laid" ->
         LET lay == Layouts[st.l]
             full == IF Sem THEN Prelude \o st.done ELSE st.done
             e == Expected(full, lay)
             r == Render(full, lay)
         IN [ph |-> "laid", w |-> st.w, l |-> st.l, lay |-> lay, ast |-> e, toks |-> TokPairs(r), offs |-> Offs(r),
             header |-> ListingHeader,
             listing |-> [i \in 1..Len(e) |-> [listed |-> Listed(e[i]), line |-> ListingFileLine(e[i], "@TAG@", "@FILE@"),
                                               coded |-> ListingLineV(e[i], "@TAG@", FALSE) \o " //  " \o "@FILE@",
                                               denotes |-> ListingDenotes(e[i], "@TAG@")]],
             canon |-> [i \in 1..Len(e) |-> CanonText(e[i])],
             coded |-> [i \in 1..Len(e) |-> CanonTextAsCoded(e[i])],
             words |-> [i \in 1..Len(e) |-> Canon(e[i])],
             print |-> PrintSchema(e),
             reparsed |-> [i \in 1..Len(e) |-> AfterPrint(e[i])]]
    [] OTHER -> [ph |-> st.ph]

WantEmit == st.ph \in {"mut", "laid"}
Emit == WantEmit => PrintT(ToJson(<<"@@", Payload>>))

(* ---- theorems of the model, checked in every state ---- *)
IsSep(t) == t.k \in {"SP", "TAB", "nl", "cmt"}
LaidOK ==
  st.ph = "laid" =>
    LET lay == Layouts[st.l]
        r == Render(st.done, lay)
    IN /\ SelectSeq(r, LAMBDA t : ~IsSep(t)) = SigToks(st.done, lay)            \* separators only separate
       /\ \A i \in 1..(Len(r) - 1) : ~NeedSep(r[i], r[i + 1])                     \* no two tokens can merge
       /\ \A i \in 1..Len(st.done) :
            /\ CanonText(FoldC(st.done[i])) = CanonText(st.done[i])               \* the tag ignores the spelling of arithmetic
            /\ Len(Canon(st.done[i])) >= 3
(* every derived arithmetic expression is one the language accepts *)
RECURSIVE TyOK(_), FieldOK(_)
TyOK(t) == \A i \in 1..Len(t.as) : IF t.as[i].ar # <<>> THEN ArithOK(t.as[i].ar) ELSE TyOK(t.as[i].t[1])
FieldOK(f) == /\ (f.m # <<>> => f.m[1].bit[1] <= 65535)
              /\ IF f.rep = <<>> THEN TyOK(f.t[1])
                 ELSE /\ (f.rep[1].sk = "ar" => ArithOK(f.rep[1].sa))
                      /\ \A i \in 1..Len(f.rep[1].body) : FieldOK(f.rep[1].body[i])
DerivedOK == st.ph = "idle" =>
               \A i \in 1..Len(st.done) : /\ \A j \in 1..Len(st.done[i].fs) : FieldOK(st.done[i].fs[j])
                                          /\ \A j \in 1..Len(st.done[i].res) : TyOK(st.done[i].res[j])
=============================================================================
