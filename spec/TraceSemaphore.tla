--------------------------- MODULE TraceSemaphore ---------------------------
(***************************************************************************)
(* Trace validation (code -> spec) for the weighted semaphore, stateful    *)
(* form.  The trace is a concatenation of recordings, each starting with   *)
(* a "reset" event (fresh semaphore of the given size).                    *)
(*                                                                         *)
(* Every other line is either                                              *)
(*  - one critical section of semaphore.go, emitted by the `verif` hook    *)
(*    WHILE s.mu IS HELD (so the file order is the real order), carrying   *)
(*    the calling process p (the goroutine), the argument n, the outcome   *)
(*    ok and the state left behind (cur, size, number of waiters): the     *)
(*    step must be the spec action of that critical section AND the primed *)
(*    variables must equal the logged values; or                           *)
(*  - "ret": a call of p (Acquire / TryAcquire) returned with ok; it is    *)
(*    placed by the recorder right before p's next critical section (the   *)
(*    step only changes p's own status and commutes with all steps of the  *)
(*    other processes).                                                    *)
(* The trace is deterministic (no search): one successor per state or the  *)
(* trace is rejected.  Acceptance: POSTCONDITION TraceAccepted.            *)
(***************************************************************************)
EXTENDS Semaphore

Trace == ndJsonDeserialize("sem-trace.ndjson")

VARIABLE l
tvars == <<size, cur, waiters, st, w, forced, js, l>>

TraceInit ==
  /\ l = 1
  /\ size = 0 /\ cur = 0 /\ waiters = <<>> /\ forced = 0
  /\ st = [p \in Procs |-> "idle"] /\ w = [p \in Procs |-> 0]
  /\ JS

Reset(e) ==
  /\ size' = e.size /\ cur' = 0 /\ waiters' = <<>> /\ forced' = 0
  /\ st' = [p \in Procs |-> "idle"] /\ w' = [p \in Procs |-> 0]
  /\ JSNext

(* the state the critical section left behind, as the hook saw it *)
Post(e) == cur' = e.cur /\ size' = e.size /\ Len(waiters') = e.w

(* a call of p returned *)
Ret(p, ok) ==
  \/ st[p] = "ready"   /\ ok  /\ AcquireWake(p)
  \/ st[p] = "doomed"  /\ ~ok /\ DoomedCancel(p)
  \/ st[p] = "holding" /\ ok  /\ UNCHANGED vars    \* after acq_fast, ctx_ready, try ok
  \/ st[p] = "idle"    /\ ~ok /\ UNCHANGED vars    \* after ctx_remove, try failed

Step(e) ==
  \/ e.ev = "reset"       /\ Reset(e)
  \/ e.ev = "ret"         /\ e.p \in Procs /\ Ret(e.p, e.ok)
  \/ e.ev = "acq_fast"    /\ e.p \in Procs /\ AcquireFast(e.p, e.n)        /\ Post(e)
  \/ e.ev = "acq_doomed"  /\ e.p \in Procs /\ AcquireDoomed(e.p, e.n)      /\ Post(e)
  \/ e.ev = "acq_enqueue" /\ e.p \in Procs /\ AcquireEnqueue(e.p, e.n)     /\ Post(e)
  \/ e.ev = "ctx_remove"  /\ e.p \in Procs /\ w[e.p] = e.n /\ CtxDoneRemove(e.p)       /\ Post(e)
  \/ e.ev = "ctx_ready"   /\ e.p \in Procs /\ w[e.p] = e.n /\ CtxDoneAlreadyReady(e.p) /\ Post(e)
  \/ e.ev = "try" /\ e.ok  /\ e.p \in Procs /\ TryAcquireOK(e.p, e.n)      /\ Post(e)
  \/ e.ev = "try" /\ ~e.ok /\ e.p \in Procs /\ TryAcquireFail(e.p, e.n)    /\ Post(e)
  \/ e.ev = "release" /\ ~e.f /\ e.p \in Procs /\ Release(e.p, e.n)        /\ Post(e)
  \/ e.ev = "release" /\ e.f  /\ ReleaseForced(e.n)                        /\ Post(e)
  \/ e.ev = "force"       /\ ForceAcquire(e.n)                             /\ Post(e)
  \/ e.ev = "setsize"     /\ SetSize(e.n)                                  /\ Post(e)

TraceNext ==
  /\ l <= Len(Trace)
  /\ l' = l + 1
  /\ Step(Trace[l])

(* the whole trace was consumed: the chain of states has Len(Trace)+1 elements *)
TraceAccepted ==
  LET d == TLCGet("stats").diameter IN
  /\ PrintT(ToJson(<<"@@", [consumed |-> d - 1, len |-> Len(Trace)]>>))
  /\ d = Len(Trace) + 1

(* used to localise a rejection: prints the spec state before each event of a short trace *)
EmitState == PrintT(ToJson(<<"@@", [l |-> l, state |-> Proj]>>))
=============================================================================
