CONSTANTS
  NT = @NT@
  MemLimit = @MEM@
  MaxWin = 64
  MaxMsgs = @MSGS@
  MaxFaults = @FAULTS@
  MaxNet = @NET@
  MaxHdr = @HDR@
  MaxBurst = @BURST@
  MaxChunks = @CHUNKS@
  Sched = TRUE
  ChunkCounts <- MCChunkCounts
SPECIFICATION Spec
INVARIANTS Core NetOK DeliveredOK MemOK
PROPERTIES MonotoneProp
CHECK_DEADLOCK FALSE
