CONSTANTS
  Mode = "@MODE@"
  Lang = @LANG@
  MaxChars = @MAXCHARS@
  FullChars = @FULLCHARS@
  Chars = @CHARS@
  Chars2 = @CHARS2@
  MaxToks = @MAXTOKS@
  TokSel = "@TOKSEL@"
  PruneToks = @PRUNE@
  EmitEvery = @EMITEVERY@
  LowerNames <- LowerNamesMC
  LongNamesLower = FALSE
INIT Init
NEXT Next
INVARIANTS EmitLex EmitTok
CHECK_DEADLOCK FALSE
