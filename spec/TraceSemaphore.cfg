CONSTANTS
  NP = @NP@
  Weights = {}
  Sizes = {}
  MaxForced = 1000000
INIT TraceInit
NEXT TraceNext
INVARIANTS QueueConsistent Accounting @EXTRAINV@
PROPERTIES NoOverAdmit FIFO
POSTCONDITION TraceAccepted
CHECK_DEADLOCK FALSE
