------------------------- MODULE MC_PacketConnNego -------------------------
(***************************************************************************)
(* The nonce negotiation table of PacketConn as a case space: every row    *)
(* (address kind x trust on either side x forced encryption on either side *)
(* x client key x relation of the server's keys x protocol version) is one *)
(* state; the table-level requirements are invariants and every row is     *)
(* printed with the specified outcome for replay through the real          *)
(* HandshakeClient / HandshakeServer.                                      *)
(***************************************************************************)
EXTENDS PacketConn, Json

VARIABLE row

Rows == [addr : {"loop", "remote"}, ctrust : BOOLEAN, strust : BOOLEAN, cforce : BOOLEAN, sforce : BOOLEAN,
         ckey : BOOLEAN, skey : {"none", "same", "other", "prefix"}, ver : 0..2]

NegoInit == InitState /\ row \in Rows
NegoNext == UNCHANGED <<vars, row>>

RequireC == row.cforce \/ ~(row.addr = "loop" \/ row.ctrust)
RequireS == row.sforce \/ ~(row.addr = "loop" \/ row.strust)
Out == NegoOutcome(row.ckey, RequireC, RequireS, row.skey)
CS == ClientSchema(row.ckey, RequireC)
SA == IF CS = "error" THEN "error" ELSE ServerAnswer(CS, RequireS, row.ckey, row.skey)

NegoEmit == PrintT(ToJson(<<"@@", [row |-> row, out |-> Out, cs |-> CS, sa |-> SA]>>))

(* an end that requires encryption never ends up on a plain connection *)
NoDowngrade == Out = "plain" => ~RequireC /\ ~RequireS
(* encryption is only ever established on a common key *)
AesNeedsCommonKey == Out = "aes" => row.ckey /\ row.skey = "same"
(* two ends that both accept plain always connect, whatever their keys *)
PlainAlwaysPossible == ~RequireC /\ ~RequireS => Out = "plain"
(* a common key always connects *)
CommonKeyConnects == row.ckey /\ row.skey = "same" => Out \in {"plain", "aes"}
=============================================================================
