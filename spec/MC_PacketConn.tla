--------------------------- MODULE MC_PacketConn ---------------------------
(***************************************************************************)
(* Bounded scenario space of PacketConn for exhaustive TLC runs:           *)
(* crypto settings x up to MaxPkts packets (shape = type class x body      *)
(* length class, flushed or not) x chunkings (none, every k bytes, one cut *)
(* at a position) x one corrupted byte given as a CLASS: an interval of    *)
(* stream positions and a set of masks for which the specified outcome is  *)
(* the same (checked: ClassUniform).  Every finished run is printed with   *)
(* the specified observations; the harness replays it into the real        *)
(* PacketConn pair, expanding classes to concrete bytes.                   *)
(***************************************************************************)
EXTENDS PacketConn, Json

CONSTANTS MaxPkts,       \* user packets written per scenario
          Shapes,        \* packet shapes, coded  type index * 1000 + body length
          Cryptos,       \* crypto settings, coded  enc * 10 + protocol version
          EveryK,        \* chunk sizes of the uniform chunkings
          SingleCuts,    \* "none" | "class" | "all": single-cut chunkings
          CorrEveryK,    \* chunk sizes combined with a corruption (0 = one chunk)
          LenMasks,      \* masks tried on the low byte of a length
          PadKs,         \* numbers of raw padding words a foreign plain writer may insert
          Plans          \* {} = every packet sequence up to MaxPkts; otherwise only these (coded, see Plan*)

VARIABLES cls, cutm, plan

mcvars == <<vars, cls, cutm, plan>>

(* a plan fixes the crypto setting and the packet sequence (sampled by the harness):
   plan = crypto + 100 * (d1 + 70 * d2 + 4900 * d3), d = 2 * rank of the shape in Shapes + flush + 1,
   d = 60 + k: k raw padding words, 0 = end *)
PlanCrypto(p) == p % 100
PlanItem(p, i) == ((p \div 100) \div (IF i = 1 THEN 1 ELSE IF i = 2 THEN 70 ELSE 4900)) % 70
PlanLen(p) == IF PlanItem(p, 1) = 0 THEN 0 ELSE IF PlanItem(p, 2) = 0 THEN 1 ELSE IF PlanItem(p, 3) = 0 THEN 2 ELSE 3
Rank(s) == Cardinality({x \in Shapes : x < s})

Types == << <<52, 18, 0, 0>>,        \* 1: 0x00001234
            <<1, 0, 0, 128>>,        \* 2: 0x80000001
            PingType,                \* 3
            PongType,                \* 4
            <<222, 162, 48, 87>>,    \* 5: one bit away from rpcPing
            <<4, 0, 0, 0>> >>        \* 6: looks like a padding word
ShapeType(s) == Types[s \div 1000]
ShapeLen(s) == s % 1000

NoClass == [lo |-> 0, hi |-> 0, any |-> TRUE, mask |-> 0, kind |-> "none"]

RECURSIVE StartsOf(_, _, _)
StartsOf(out, j, base) == IF j > Len(out) THEN <<>> ELSE <<base>> \o StartsOf(out, j + 1, base + out[j][3])

(* corruption classes of a sealed stream w; only bytes after the handshake *)
ClassesSt(w, s, hsEnd, st) ==
  IF w.enc THEN
    { [lo |-> b + 1, hi |-> b + Block, any |-> TRUE, mask |-> 1, kind |-> "block"] :
        b \in {x \in hsEnd..(w.n - 1) : (x - w.encFrom) % Block = 0} }
  ELSE
    LET J  == {j \in 1..Len(w.out) : w.out[j][2] > 2}
        L0(j) == (Overhead + s[w.out[j][2]].len) % 256
    IN UNION { LET k == w.out[j][1]  o == st[j]  n == w.out[j][3] IN
        CASE k = "len" ->
                 { [lo |-> o + 1, hi |-> o + 1, any |-> FALSE, mask |-> m, kind |-> "len0"] :
                      m \in LenMasks \cup (IF L0(j) # 4 THEN {L0(j) ^^ 4} ELSE {}) }
                 \cup { [lo |-> o + b, hi |-> o + b, any |-> FALSE, mask |-> m, kind |-> "lenhi"] : b \in 2..4, m \in {1, 255} }
          [] k = "seq" -> { [lo |-> o + b, hi |-> o + b, any |-> TRUE, mask |-> 1, kind |-> "seq"] : b \in 1..4 }
          [] k = "type" ->
                 { [lo |-> o + b, hi |-> o + b, any |-> FALSE, mask |-> m, kind |-> "type"] : b \in 1..4, m \in {1, 128} }
                 \cup { [lo |-> o + b, hi |-> o + b, any |-> FALSE, mask |-> s[w.out[j][2]].tp[b] ^^ PingType[b], kind |-> "type"] :
                          b \in {c \in 1..4 : s[w.out[j][2]].tp[c] # PingType[c]
                                              /\ \A d \in (1..4) \ {c} : s[w.out[j][2]].tp[d] = PingType[d]} }
          [] k = "body" -> { [lo |-> o + 1, hi |-> o + n, any |-> TRUE, mask |-> 1, kind |-> "body"] }
          [] k = "crc" -> { [lo |-> o + 1, hi |-> o + 4, any |-> TRUE, mask |-> 1, kind |-> "crc"] }
          [] OTHER -> {}
        : j \in J }

Classes(w, s, hsEnd) == ClassesSt(w, s, hsEnd, StartsOf(w.out, 1, 0))

(* chunkings *)
CutSet(cm, w) ==
  CASE cm[1] = "none"  -> NoCuts
    [] cm[1] = "every" -> [every |-> cm[2], at |-> {}]
    [] cm[1] = "at"    -> [every |-> 0, at |-> {cm[2]}]
InterestingCut(w, st, c, hsEnd) ==     \* a cut right before / one byte into a segment, or next to a block boundary
  \/ \E j \in 1..Len(w.out) : c = st[j] \/ c = st[j] + 1 \/ (w.out[j][1] = "body" /\ c = st[j] + w.out[j][3] - 1)
  \/ w.enc /\ (c - w.encFrom) % Block \in {0, 1, Block - 1}
CutModesSt(w, hsEnd, st) ==
  {<<"none", 0>>} \cup {<<"every", k>> : k \in EveryK}
  \cup (IF SingleCuts = "none" THEN {}
        ELSE {<<"at", c>> : c \in {x \in (hsEnd + 1)..(w.n - 1) : SingleCuts = "all" \/ InterestingCut(w, st, x, hsEnd)}})
CutModes(w, hsEnd) == CutModesSt(w, hsEnd, StartsOf(w.out, 1, 0))
CorrCutModes == {IF k = 0 THEN <<"none", 0>> ELSE <<"every", k>> : k \in CorrEveryK}

Init == InitState /\ cls = NoClass /\ cutm = <<"none", 0>> /\ plan = 0

SealMC ==
  /\ phase = "open" /\ bw # W0 /\ Len(wres) >= 1
  /\ plan > 0 => Len(wres) = PlanLen(plan)
  /\ UNCHANGED plan
  /\ \E w \in {DoFlush(aw)}, hsEnd \in {WAfterHandshake(cfg.enc, cfg.ver).n} :
        \/ \E cm \in CutModes(w, hsEnd) :
             Seal(CutSet(cm, w), NoCorr) /\ cls' = NoClass /\ cutm' = cm
        \/ \E cl \in Classes(w, sent, hsEnd), cm \in CorrCutModes :
             Seal(CutSet(cm, w), [pos |-> cl.lo, mask |-> cl.mask]) /\ cls' = cl /\ cutm' = cm

StartMC ==
  IF Plans = {} THEN (\E c \in Cryptos : Start(c \div 10 = 1, c % 10)) /\ plan' = 0
  ELSE \E p \in Plans : Start(PlanCrypto(p) \div 10 = 1, PlanCrypto(p) % 10) /\ plan' = p

WriteMC ==
  /\ Len(wres) < (IF plan > 0 THEN PlanLen(plan) ELSE MaxPkts)
  /\ \/ \E s \in Shapes, f \in BOOLEAN :
          /\ plan > 0 => PlanItem(plan, Len(wres) + 1) = 2 * Rank(s) + (IF f THEN 1 ELSE 0) + 1
          /\ Write(ShapeType(s), ShapeLen(s), Len(wres) + 1, f)
     \/ \E k \in PadKs :
          /\ plan > 0 => PlanItem(plan, Len(wres) + 1) = 60 + k
          /\ (IF Len(wres) = 0 THEN TRUE ELSE wres[Len(wres)].pad = 0)   \* never two runs of raw padding in a row
          /\ RawPad(k)

MCStart       == StartMC /\ UNCHANGED <<cls, cutm>>
MCRdHandshake == RdHandshake /\ UNCHANGED <<cls, cutm, plan>>
MCNegotiate   == Negotiate /\ UNCHANGED <<cls, cutm, plan>>
MCWriteHs     == WriteHs /\ UNCHANGED <<cls, cutm, plan>>
MCOpenB       == OpenB /\ UNCHANGED <<cls, cutm, plan>>
MCWrite       == WriteMC /\ UNCHANGED <<cls, cutm, plan>>
MCRead        == Read /\ UNCHANGED <<cls, cutm, plan>>

Next == MCStart \/ MCRdHandshake \/ MCNegotiate \/ MCWriteHs \/ MCOpenB \/ MCWrite \/ SealMC \/ MCRead

---------------------------------------------------------------------------
(* every member of a corruption class has the specified outcome of its representative *)
ClassMembers ==
  LET ps == {cls.lo, cls.hi, (cls.lo + cls.hi) \div 2, cls.lo + ((cls.hi - cls.lo) \div 3)}
      ms == IF cls.any THEN {4, 255} ELSE {cls.mask}
  IN (ps \X ms) \ {<<chn.corr.pos, chn.corr.mask>>}
ClassUniform ==
  phase = "read" /\ Len(log) = 0 /\ cls.lo > 0 =>
    LET base == RunFrom(Cx(aw, sent, chn.corr), rd, <<>>, <<>>) IN
    \A pm \in ClassMembers : RunFrom(Cx(aw, sent, [pos |-> pm[1], mask |-> pm[2]]), rd, <<>>, <<>>) = base

(* the flipped byte behind a garbled block is never what decides: the reader has failed before *)
FlipBehindGarbleUnread ==
  phase = "done" /\ chn.corr.pos > 0 /\ InEnc(aw, chn.corr.pos) => rd.pos < chn.corr.pos + Block

Emit ==
  phase = "done" /\ Len(sent) >= 2 =>
    PrintT(ToJson(<<"@@", [enc |-> cfg.enc, ver |-> cfg.ver, pk |-> wres, sent |-> sent, segs |-> aw.out,
                          nonceEnd |-> WNonce(cfg.ver).n, hsEnd |-> HsEnd, n |-> aw.n,
                          cutm |-> cutm, cuts |-> [every |-> chn.cuts.every, at |-> SeqOfSet(chn.cuts.at)], cls |-> cls,
                          log |-> log, pongs |-> pongs, rev |-> bw.out, revn |-> bw.n - HsEnd]>>))
=============================================================================
