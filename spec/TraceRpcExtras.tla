--------------------------- MODULE TraceRpcExtras ---------------------------
(***************************************************************************)
(* Trace validation (code -> spec) for the RPC extras, stateless parallel  *)
(* form: every line of trace.ndjson is one real round trip, recorded as    *)
(* [tc |-> the case as the caller / handler set it up (atoms),             *)
(*  obs |-> what the handler and the caller observed (same atoms)];        *)
(* EventOK: the observation is the one RpcExtras prescribes for the case.  *)
(* A custom_timeout_ms derived from the context deadline is observed as an *)
(* integer and must lie in 1..CtxMs.                                       *)
(***************************************************************************)
EXTENDS RpcExtras

Trace == ndJsonDeserialize("trace.ndjson")

VARIABLE i
TInit == i \in 1..Len(Trace) /\ tc = 0 /\ edits = 0
TNext == UNCHANGED <<i, tc, edits>>

(* JSON objects keyed by the bit number as a string -> functions over ReqValBits *)
ReqValOf(o) == [b \in ReqValBits |-> o[ToString(b)]]
SetOf(seq) == {seq[k] : k \in DOMAIN seq}
CaseOf(t) == [req |-> [mask |-> SetOf(t.req.mask), val |-> ReqValOf(t.req.val)],
              resp |-> [mask |-> SetOf(t.resp.mask), val |-> t.resp.val],
              out |-> t.out, actor |-> t.actor, tl2 |-> t.tl2, ctx |-> t.ctx]

EventOK ==
  LET t == CaseOf(Trace[i].tc)
      o == Trace[i].obs
      e == Expect(t) IN
  IF e.rej # "" THEN o.rej = e.rej
  ELSE /\ o.rej = ""
       /\ SetOf(o.srvMask) = e.srvMask
       /\ \A b \in ReqValBits :
            IF b = TimeoutBit /\ e.srvTmo = "ctx"
            THEN o.srvVal[ToString(b)] >= 1 /\ o.srvVal[ToString(b)] <= CtxMs
            ELSE o.srvVal[ToString(b)] = e.srvVal[b]
       /\ o.srvDeadline = (e.srvTmo # "none")          \* the handler's context has a deadline iff a timeout travelled
       /\ o.srvActor = e.srvActor /\ o.srvTL2 = e.srvTL2
       /\ SetOf(o.cliMask) = e.cliMask
       /\ \A f \in RespFields : o.cliVal[f] = e.cliVal[f]
       /\ o.cliTL2 = e.cliTL2
       /\ o.err = e.err
       /\ o.bodyBack = e.bodyBack
=============================================================================
