------------------------------ MODULE RpcCalls ------------------------------
(***************************************************************************)
(* RPC client / server of pkg/rpc (TCP and Unix transports).               *)
(*                                                                         *)
(* Client side: one action per critical section of client_conn.go under    *)
(* pc.mu (setupCallLocked, moveRequestsToSendLocked, cancelCallImpl,       *)
(* finishCall, massCancelRequestsLocked, shutdown, close) plus the thread  *)
(* of one call (client.go Do / doWait).  Server side: the per-connection   *)
(* receive loop (server.go receiveLoopImpl: handler context, request       *)
(* memory semaphore BEFORE the body is read, worker), the worker pool      *)
(* (server_workerpool.go Get/Put), the handler, SendResponse (releases the *)
(* request memory, pushes into the connection's write queue), the send     *)
(* loop, graceful shutdown (LetsFIN / ClientWantsFin) and close.           *)
(*                                                                         *)
(* A call id doubles as its queryID (the client takes them from an atomic  *)
(* counter, so they are unique per client).  A response packet carries     *)
(* [q = queryID it is addressed to, from = request whose handler produced  *)
(* it]; in this specification the server always writes q = from, and the   *)
(* client matches on q only (finishCall looks up pc.calls[queryID]).       *)
(*                                                                         *)
(* Channels are FIFO.  Bytes in flight may be lost when the transport      *)
(* breaks; each side notices the break on its own.                         *)
(*                                                                         *)
(* Deviations of the code from the idealised picture are separate, named   *)
(* actions: HandleInline (MaxWorkers = 0 disables the pool: the handler    *)
(* runs on the connection's receive goroutine, so concurrency is bounded   *)
(* by the number of connections, not by the pool), HandlerSkipExpired (the *)
(* worker answers "timeout" without calling the handler), BodyReadDeadline  *)
(* (a request waiting for request memory is dropped together with its      *)
(* connection when the stale read deadline expires), RequeueUnsent         *)
(* (inside MassCancel: an unsent call without fail-fast/deadline survives  *)
(* a disconnect and even a server close; it returns only on reconnect,     *)
(* cancel, deadline or client Close), LateResponseIgnored, ShutdownHoldsQ  *)
(* (during graceful shutdown the write queue is neither sent nor cleared), *)
(* CancelNotForwardedToHandler (rpcCancelReq only cancels long polls; a    *)
(* running handler is never interrupted by the client's cancel).           *)
(***************************************************************************)
EXTENDS Integers, Sequences, FiniteSets, TLC, RpcLimits

CONSTANTS
  Clients,        \* set of client names
  CallIds,        \* set of call ids (positive integers)
  OwnerOf(_),     \* call id -> client
  MaxWorkers,     \* ServerOptions.MaxWorkers (0 = pool disabled)
  MemLimit,       \* request memory limit, in units
  Take(_),        \* call id -> units taken for its request = max(len, RequestBufSize)
  CtlTake,        \* units taken by a cancel / FIN packet (= RequestBufSize)
  AllowBodyDeadline, \* TRUE: the deviation BodyReadDeadline below can happen (time passes while a request waits)
  AllowOrphans    \* FALSE: requests unread when the server side of a connection stops are lost
                  \* (bounded model checking); TRUE: the old receive loop may still read them

NoId == 0

VARIABLES
  call,      \* [CallIds -> [pc, st, slot, ctx, tmo, ff, exp, rv, nd]]
  writeQ,    \* [Clients -> Seq([k, q])]           pc.writeQ
  inFlight,  \* [Clients -> Int]                   pc.inFlight
  cli,       \* [Clients -> [conn, shut, fin, w2r, closed, hscut, linger]]
             \*   linger: the clientConn object of a failed connect may still be in client.conns
             \*   (goConnect is between continueRunning and removeConnection)
  c2s, s2c,  \* [Clients -> Seq(packet)]           transport, FIFO
  link,      \* [Clients -> {"ok","broken"}]       state of the current transport
  proxy,     \* [Clients -> {"pass","refuse","hold"}]  environment: can a new transport be established
             \*   (hold: the connection attempt neither succeeds nor fails until the mode changes)
  sconn,     \* [Clients -> [st, rl, wq]]          server side of the client's connection
  srv,       \* [CallIds -> [st, out, live]]       server side of one request
  orph,      \* requests still readable by a connection the server side of which is being torn down
  pool,      \* [created, free]                    workerPool
  mem,       \* units held in reqMemSem
  srvSt,     \* "up" | "shutdown" | "closing" | "closed"
  pend       \* commands of the environment that were issued (the API call / fault injection has
             \* started, which is what a recorder can log) but have not taken effect yet

vars == <<call, writeQ, inFlight, cli, c2s, s2c, link, proxy, sconn, srv, orph, pool, mem, srvSt, pend>>

---------------------------------------------------------------------------
Pkt(k, q, o) == [k |-> k, q |-> q, o |-> o]
ReqP(id)     == Pkt("req", id, "none")
CancelP(id)  == Pkt("cancel", id, "none")
FinP         == Pkt("fin", NoId, "none")
RespP(id, o) == Pkt("resp", id, o)
LetsFinP     == Pkt("letsfin", NoId, "none")

HandlerOuts == {"ok", "rpcerr", "err", "tmo", "cancelled"}
(* what Do() may return: a response / error produced by the handler of     *)
(* request `from`, or one of the local errors                              *)
Res(k, from) == [k |-> k, from |-> from]
LocalErrs == {"cancel", "deadline", "closedSE", "closedNoSE", "clientClosed"}
Empty == Res("empty", NoId)

Range(s) == {s[i] : i \in DOMAIN s}
Ids(c) == {id \in CallIds : OwnerOf(id) = c}
InCalls(c) == {id \in Ids(c) : call[id].st # "none"}
SentCalls(c) == {id \in Ids(c) : call[id].st = "sent"}

InitCall == [pc |-> "new", st |-> "none", slot |-> Empty, ctx |-> "live",
             tmo |-> FALSE, ff |-> FALSE, exp |-> FALSE, rv |-> Empty, nd |-> 0]
InitCli  == [conn |-> "idle", shut |-> FALSE, fin |-> FALSE, w2r |-> FALSE, closed |-> FALSE, hscut |-> FALSE,
             linger |-> FALSE]
InitSConn == [st |-> "none", rl |-> NoId, wq |-> <<>>]
InitSrv  == [st |-> "none", out |-> "none", live |-> FALSE]

Init ==
  /\ call = [id \in CallIds |-> InitCall]
  /\ writeQ = [c \in Clients |-> <<>>]
  /\ inFlight = [c \in Clients |-> 0]
  /\ cli = [c \in Clients |-> InitCli]
  /\ c2s = [c \in Clients |-> <<>>]
  /\ s2c = [c \in Clients |-> <<>>]
  /\ link = [c \in Clients |-> "ok"]
  /\ proxy = [c \in Clients |-> "pass"]
  /\ sconn = [c \in Clients |-> InitSConn]
  /\ srv = [id \in CallIds |-> InitSrv]
  /\ orph = {}
  /\ pool = [created |-> 0, free |-> 0]
  /\ mem = 0
  /\ srvSt = "up"
  /\ pend = {}

---------------------------------------------------------------------------
(* ============================ client ================================== *)

(* API boundary: Do() is entered (logged by the driver before the call).   *)
Invoke(id, t, f) ==
  /\ call[id].pc = "new"
  /\ call' = [call EXCEPT ![id].pc = "inv", ![id].tmo = t, ![id].ff = f]
  /\ UNCHANGED <<writeQ, inFlight, cli, c2s, s2c, link, proxy, sconn, srv, orph, pool, mem, srvSt, pend>>

(* environment: the caller cancels the context (logged before cancel() is  *)
(* called: if the call has a deadline, the deadline may still win; a call  *)
(* that already returned is not affected)                                  *)
CtxCancel(id) ==
  /\ \/ /\ call[id].pc \in {"inv", "wait"} /\ call[id].ctx = "live"
        /\ \/ call' = [call EXCEPT ![id].ctx = "cancel"]
           \/ call[id].tmo /\ call' = [call EXCEPT ![id].ctx = "deadline", ![id].exp = TRUE]
     \/ /\ ~(call[id].pc \in {"inv", "wait"} /\ call[id].ctx = "live")
        /\ UNCHANGED call
  /\ UNCHANGED <<writeQ, inFlight, cli, c2s, s2c, link, proxy, sconn, srv, orph, pool, mem, srvSt, pend>>

(* Time.  A call with a timeout has a deadline; `exp` records that some    *)
(* step has already observed the deadline as passed (time is monotone).    *)
(* It is set lazily by the steps that look at the clock: MayBeExpired(id)  *)
(* is the set of answers such a step may get.                              *)
MayBeExpired(id) == IF call[id].exp THEN {TRUE} ELSE IF call[id].tmo THEN {TRUE, FALSE} ELSE {FALSE}

(* the context's timer fires (deadline reached)                            *)
CtxDeadline(id) ==
  /\ call[id].tmo /\ call[id].ctx = "live" /\ call[id].pc \in {"inv", "wait"}
  /\ call' = [call EXCEPT ![id].ctx = "deadline", ![id].exp = TRUE]
  /\ UNCHANGED <<writeQ, inFlight, cli, c2s, s2c, link, proxy, sconn, srv, orph, pool, mem, srvSt, pend>>

(* client.go fillRequestTimeout: `to <= 0` -> DeadlineExceeded, nothing set up *)
SetupExpired(id) ==
  /\ call[id].pc = "inv" /\ call[id].tmo
  /\ call' = [call EXCEPT ![id].pc = "ret", ![id].rv = Res("deadline", NoId), ![id].exp = TRUE]
  /\ UNCHANGED <<writeQ, inFlight, cli, c2s, s2c, link, proxy, sconn, srv, orph, pool, mem, srvSt, pend>>

(* client.go setupCall + client_conn.go setupCallLocked.  LingeringConn:   *)
(* right after a failed connect that left no calls, the old clientConn     *)
(* (waitingToReconnect = TRUE) is still registered for a moment; a call    *)
(* that finds it behaves as if the connection were waiting to reconnect.   *)
SetupCall(id) ==
  LET c == OwnerOf(id) IN
  /\ call[id].pc = "inv"
  /\ \E old \in (IF cli[c].conn = "idle" /\ cli[c].linger THEN {TRUE, FALSE} ELSE {FALSE}) :
       LET w2r == IF old THEN TRUE ELSE cli[c].w2r /\ cli[c].conn # "idle" IN
       IF cli[c].closed
       THEN /\ call' = [call EXCEPT ![id].pc = "ret", ![id].rv = Res("clientClosed", NoId)]
            /\ UNCHANGED <<writeQ, cli>>
       ELSE IF call[id].ff /\ w2r
       THEN /\ call' = [call EXCEPT ![id].pc = "ret", ![id].rv = Res("closedNoSE", NoId)]
            /\ UNCHANGED <<writeQ, cli>>
       ELSE /\ call' = [call EXCEPT ![id].pc = "wait", ![id].st = "unsent"]
            /\ writeQ' = [writeQ EXCEPT ![c] = Append(@, ReqP(id))]
            /\ cli' = [cli EXCEPT ![c].conn = IF @ = "idle" THEN "connecting" ELSE @,
                               ![c].w2r = IF cli[c].conn = "idle" THEN old ELSE @,
                               ![c].linger = FALSE]
  /\ UNCHANGED <<inFlight, c2s, s2c, link, proxy, sconn, srv, orph, pool, mem, srvSt, pend>>

(* sendLoop + moveRequestsToSendLocked: the whole queue is taken under the *)
(* lock; entries whose call vanished are dropped; requests become "sent"   *)
(* (the point of potential side effect) before they are written.           *)
(* ShutdownHoldsQ: while isShutdown the queue is neither sent nor cleared. *)
SendFromWriteQ(c) ==
  LET q == IF cli[c].shut THEN <<>> ELSE writeQ[c]
      Keep(e) == e.k = "cancel" \/ call[e.q].st = "unsent"
      batch == SelectSeq(q, Keep)
      sentIds == {e.q : e \in {x \in Range(batch) : x.k = "req"}}
      out == batch \o (IF cli[c].fin THEN <<FinP>> ELSE <<>>)
  IN
  /\ cli[c].conn = "up"
  /\ (~cli[c].shut /\ writeQ[c] # <<>>) \/ cli[c].fin
  /\ call' = [id \in CallIds |-> IF id \in sentIds THEN [call[id] EXCEPT !.st = "sent"] ELSE call[id]]
  /\ inFlight' = [inFlight EXCEPT ![c] = @ + Cardinality(sentIds)]
  /\ writeQ' = [writeQ EXCEPT ![c] = IF cli[c].shut THEN @ ELSE <<>>]
  /\ cli' = [cli EXCEPT ![c].fin = FALSE]
  /\ c2s' = [c2s EXCEPT ![c] = IF link[c] = "ok" THEN @ \o out ELSE @]   \* broken transport: bytes are lost
  /\ UNCHANGED <<s2c, link, proxy, sconn, srv, orph, pool, mem, srvSt, pend>>

(* doWait took the ctx.Done() branch: cancelCall + cancelCallImpl.  The     *)
(* cancel packet is not sent when the deadline is observed as passed.      *)
(* DrainOnCancel: the response may have been delivered in the same instant *)
(* (slot full, st = "none"); doWait then drains the result channel         *)
(* (slot' = Empty).  The call context and its channel are pooled and       *)
(* reused by later calls of the client, so a result left in the slot would *)
(* be returned by another call (OwnOutcome / SlotOK).                      *)
CancelCall(id) ==
  LET c == OwnerOf(id)
      wasSent == call[id].st = "sent"
      infl == IF wasSent THEN inFlight[c] - 1 ELSE inFlight[c]
      closeNow == wasSent /\ cli[c].conn = "up" /\ cli[c].shut /\ infl = 0
  IN
  /\ call[id].pc = "wait" /\ call[id].ctx # "live"
  /\ \E passed \in MayBeExpired(id) :
       LET sendCancel == wasSent /\ cli[c].conn = "up" /\ ~closeNow /\ ~passed IN
       /\ call' = [call EXCEPT ![id].pc = "ret", ![id].st = "none", ![id].slot = Empty,
                               ![id].rv = Res(call[id].ctx, NoId), ![id].exp = passed]
       /\ writeQ' = [writeQ EXCEPT ![c] = IF sendCancel THEN Append(@, CancelP(id)) ELSE @]
  /\ inFlight' = [inFlight EXCEPT ![c] = infl]
  /\ cli' = [cli EXCEPT ![c].conn = IF closeNow THEN "dropped" ELSE @]
  /\ link' = [link EXCEPT ![c] = IF closeNow THEN "broken" ELSE @]
  /\ UNCHANGED <<c2s, s2c, proxy, sconn, srv, orph, pool, mem, srvSt, pend>>

(* API boundary: Do() returns (logged by the driver after the call)        *)
ReturnResult(id) ==      \* doWait took the result branch
  /\ call[id].pc = "wait" /\ call[id].slot # Empty
  /\ call' = [call EXCEPT ![id].pc = "done", ![id].rv = call[id].slot, ![id].slot = Empty]
  /\ UNCHANGED <<writeQ, inFlight, cli, c2s, s2c, link, proxy, sconn, srv, orph, pool, mem, srvSt, pend>>
ReturnPending(id) ==     \* early rejection, or ctx error after cancelCall
  /\ call[id].pc = "ret"
  /\ call' = [call EXCEPT ![id].pc = "done"]
  /\ UNCHANGED <<writeQ, inFlight, cli, c2s, s2c, link, proxy, sconn, srv, orph, pool, mem, srvSt, pend>>
Return(id) == ReturnResult(id) \/ ReturnPending(id)

(* receiveLoop -> handlePacket: finishCall / shutdown                      *)
FinishCall(c, p) ==
  LET id == p.q IN
  IF call[id].st # "sent"
  THEN UNCHANGED <<call, inFlight, cli, link>>        \* LateResponseIgnored: unknown queryID
  ELSE LET infl == inFlight[c] - 1
           closeNow == cli[c].conn = "up" /\ cli[c].shut /\ infl = 0 IN
       /\ call' = [call EXCEPT ![id].st = "none", ![id].slot = Res(p.o, id), ![id].nd = @ + 1]
       /\ inFlight' = [inFlight EXCEPT ![c] = infl]
       /\ cli' = [cli EXCEPT ![c].conn = IF closeNow THEN "dropped" ELSE @]
       /\ link' = [link EXCEPT ![c] = IF closeNow THEN "broken" ELSE @]
ClientShutdown(c) ==     \* LetsFIN received: clientConn.shutdown()
  IF cli[c].conn # "up" \/ cli[c].shut
  THEN UNCHANGED <<call, inFlight, cli, link>>
  ELSE /\ cli' = [cli EXCEPT ![c].shut = TRUE, ![c].fin = (inFlight[c] # 0),
                             ![c].conn = IF inFlight[c] = 0 THEN "dropped" ELSE @]
       /\ link' = [link EXCEPT ![c] = IF inFlight[c] = 0 THEN "broken" ELSE @]
       /\ UNCHANGED <<call, inFlight>>
ClientRecv(c) ==
  /\ cli[c].conn \in {"up", "dropped"} /\ s2c[c] # <<>>
  /\ LET p == Head(s2c[c]) IN
       IF p.k = "resp" THEN FinishCall(c, p) ELSE ClientShutdown(c)
  /\ s2c' = [s2c EXCEPT ![c] = Tail(@)]
  /\ UNCHANGED <<writeQ, c2s, proxy, sconn, srv, orph, pool, mem, srvSt, pend>>

(* send or receive loop failed, or client Close: dropClientConn            *)
ConnDrop(c) ==
  /\ cli[c].conn = "up" /\ (link[c] = "broken" \/ cli[c].closed)
  /\ cli' = [cli EXCEPT ![c].conn = "dropped"]
  /\ link' = [link EXCEPT ![c] = "broken"]
  /\ UNCHANGED <<call, writeQ, inFlight, c2s, s2c, proxy, sconn, srv, orph, pool, mem, srvSt, pend>>

(* massCancelRequestsLocked.  `late` = the unsent calls whose deadline it   *)
(* observes as passed (now.After(cctx.deadline)).                          *)
McOutcome(id, c, late) ==
  IF call[id].st = "sent" THEN "closedSE"
  ELSE IF call[id].ff \/ cli[c].closed THEN "closedNoSE"
  ELSE IF id \in late THEN "deadline"
  ELSE "requeue"                                        \* RequeueUnsent
McCall(id, c, late) ==
  IF id \notin InCalls(c) THEN call[id]
  ELSE IF McOutcome(id, c, late) = "requeue" THEN call[id]
  ELSE [call[id] EXCEPT !.st = "none", !.slot = Res(McOutcome(id, c, late), NoId), !.nd = @ + 1,
                        !.exp = IF id \in late THEN TRUE ELSE @]
McRequeued(c, late) == {id \in InCalls(c) : McOutcome(id, c, late) = "requeue"}
(* the order of the re-queued requests is the iteration order of a Go map: any *)
Perms(S) == {f \in [1..Cardinality(S) -> S] : \A i, j \in 1..Cardinality(S) : i # j => f[i] # f[j]}
McLateChoices(c) ==
  LET must == {id \in InCalls(c) : call[id].st = "unsent" /\ call[id].exp}
      may  == {id \in InCalls(c) : call[id].st = "unsent" /\ call[id].tmo /\ ~call[id].exp}
  IN {must \cup x : x \in SUBSET may}
McEffect(c, goodHandshake) ==
  \E late \in McLateChoices(c) : \E order \in Perms(McRequeued(c, late)) :
    /\ call' = [id \in CallIds |-> McCall(id, c, late)]
    /\ inFlight' = [inFlight EXCEPT ![c] = @ - Cardinality(SentCalls(c))]
    /\ writeQ' = [writeQ EXCEPT ![c] = [i \in 1..Cardinality(McRequeued(c, late)) |-> ReqP(order[i])]]
    /\ LET cont == ~cli[c].closed /\ McRequeued(c, late) # {} IN
       cli' = [cli EXCEPT ![c].shut = FALSE, ![c].fin = FALSE, ![c].hscut = FALSE,
                          ![c].conn = IF cont THEN "connecting" ELSE "idle",
                          ![c].w2r = IF ~cont THEN FALSE ELSE IF goodHandshake THEN @ ELSE TRUE,
                          ![c].linger = ~cont /\ ~goodHandshake /\ ~cli[c].closed]
    /\ s2c' = [s2c EXCEPT ![c] = <<>>]

(* goConnect after run() returned from an established connection, or when *)
(* it finds closeCC == nil                                                 *)
MassCancel(c) ==
  /\ cli[c].conn = "dropped" \/ (cli[c].conn = "connecting" /\ cli[c].closed)
  /\ McEffect(c, cli[c].conn = "dropped")
  /\ UNCHANGED <<c2s, link, proxy, sconn, srv, orph, pool, mem, srvSt, pend>>

(* dial or handshake failed (listener closed, proxy refuses, cut during    *)
(* the handshake): continueRunning(false)                                  *)
ConnectFail(c) ==
  /\ cli[c].conn = "connecting" /\ ~cli[c].closed
  /\ srvSt # "up" \/ proxy[c] = "refuse" \/ cli[c].hscut
  /\ McEffect(c, FALSE)
  /\ UNCHANGED <<c2s, link, proxy, sconn, srv, orph, pool, mem, srvSt, pend>>

(* dial + handshake succeeded on both sides: setClientConn / trackConn     *)
Connect(c) ==
  /\ cli[c].conn = "connecting" /\ ~cli[c].closed
  /\ srvSt = "up" /\ proxy[c] = "pass"
  /\ sconn[c].st \in {"none", "stopped"}
  /\ cli' = [cli EXCEPT ![c].conn = "up", ![c].w2r = FALSE, ![c].hscut = FALSE]
  /\ link' = [link EXCEPT ![c] = "ok"]
  /\ sconn' = [sconn EXCEPT ![c] = [st |-> "open", rl |-> NoId, wq |-> <<>>]]
  /\ c2s' = [c2s EXCEPT ![c] = <<>>]
  /\ s2c' = [s2c EXCEPT ![c] = <<>>]
  /\ UNCHANGED <<call, writeQ, inFlight, proxy, srv, orph, pool, mem, srvSt, pend>>

(* API boundary: Client.Close() is called (CliCloseBegin, logged before the *)
(* call), takes effect (CliCloseDo: c.closed / closeCC under the locks) and *)
(* has returned (CliCloseEnd).                                              *)
Cmd(k, who, arg) == [k |-> k, who |-> who, arg |-> arg]
CliCloseBegin(c) ==
  /\ ~cli[c].closed /\ Cmd("close", c, "") \notin pend
  /\ pend' = pend \cup {Cmd("close", c, "")}
  /\ UNCHANGED <<call, writeQ, inFlight, cli, c2s, s2c, link, proxy, sconn, srv, orph, pool, mem, srvSt>>
CliCloseDo(c) ==
  /\ Cmd("close", c, "") \in pend
  /\ pend' = pend \ {Cmd("close", c, "")}
  /\ cli' = [cli EXCEPT ![c].closed = TRUE]
  /\ UNCHANGED <<call, writeQ, inFlight, c2s, s2c, link, proxy, sconn, srv, orph, pool, mem, srvSt>>
CliCloseEnd(c) ==
  /\ cli[c].closed /\ cli[c].conn = "idle"
  /\ UNCHANGED vars

---------------------------------------------------------------------------
(* ============================ server ================================== *)

SOpen(c) == sconn[c].st \in {"open", "shutdown", "finsent"}
Running == {id \in CallIds : srv[id].st = "run"}
Busy    == {id \in CallIds : srv[id].st \in {"queued", "run", "exited"}}   \* hold a pool worker (MaxWorkers > 0)
Holding == {id \in CallIds : srv[id].st \in {"needworker", "queued", "run", "exited"}}  \* hold request memory
RECURSIVE SumTake(_)
SumTake(S) == IF S = {} THEN 0 ELSE LET x == CHOOSE x \in S : TRUE IN Take(x) + SumTake(S \ {x})

(* receiveLoopImpl: header read, handler context acquired.  A request then *)
(* waits for request memory (the body is not read before), control packets *)
(* (cancel, FIN) take and release CtlTake units on the spot.               *)
RecvHdr(c) ==
  /\ SOpen(c) /\ sconn[c].rl = NoId /\ c2s[c] # <<>>
  /\ LET p == Head(c2s[c]) IN
       \/ /\ p.k = "req"
          /\ srv' = [srv EXCEPT ![p.q] = [st |-> "needmem", out |-> "none", live |-> TRUE]]
          /\ sconn' = [sconn EXCEPT ![c].rl = p.q]
       \/ /\ p.k = "cancel"                   \* CancelNotForwardedToHandler: only long polls are cancelled
          /\ MemAdmits(mem, CtlTake, MemLimit)
          /\ UNCHANGED <<srv, sconn>>
       \/ /\ p.k = "fin"
          /\ MemAdmits(mem, CtlTake, MemLimit)
          /\ sconn' = [sconn EXCEPT ![c].st = IF @ = "open" THEN "shutdown" ELSE @]
          /\ UNCHANGED srv
  /\ c2s' = [c2s EXCEPT ![c] = Tail(@)]
  /\ UNCHANGED <<call, writeQ, inFlight, cli, s2c, link, proxy, orph, pool, mem, srvSt, pend>>

(* acquireRequestSema succeeded (TryAcquire, or Acquire after waiting)     *)
AcquireMem(id) ==
  /\ srv[id].st = "needmem"
  /\ MemAdmits(mem, Take(id), MemLimit)
  /\ mem' = mem + Take(id)
  /\ srv' = [srv EXCEPT ![id].st = "needworker"]
  /\ UNCHANGED <<call, writeQ, inFlight, cli, c2s, s2c, link, proxy, sconn, orph, pool, srvSt, pend>>
(* BodyReadDeadline (deviation from "excess load waits"): the read deadline *)
(* of the connection is set when the receive loop starts to wait for a     *)
(* packet header (DefaultPacketTimeout * 11/10) and is not renewed before  *)
(* the body is read.  A request that waits for request memory longer than  *)
(* what is left of it, and whose body is not yet in the read buffer, fails *)
(* with an i/o timeout in ReadPacketBodyUnlocked: the server closes the    *)
(* connection, and every call in flight on it ends with closedSE.          *)
BodyReadDeadline(id) ==
  LET c == OwnerOf(id) IN
  /\ AllowBodyDeadline
  /\ srv[id].st = "needmem" /\ srv[id].live /\ SOpen(c)
  /\ link' = [link EXCEPT ![c] = "broken"]
  /\ UNCHANGED <<call, writeQ, inFlight, cli, c2s, s2c, proxy, sconn, srv, orph, pool, mem, srvSt, pend>>
(* ... or failed because the connection's context was cancelled            *)
RecvAbort(id) ==
  /\ srv[id].st = "needmem" /\ ~srv[id].live
  /\ srv' = [srv EXCEPT ![id].st = "gone"]
  /\ mem' = HeldAfterAbort(mem, Take(id))          \* an aborted wait gives nothing back (MemBound checks it)
  /\ UNCHANGED <<call, writeQ, inFlight, cli, c2s, s2c, link, proxy, sconn, orph, pool, srvSt, pend>>

(* workerPool.Get (blocks while created = MaxWorkers and none is free; has *)
(* no context, so it is not interrupted by a close) + hand-over of work    *)
GetWorker(id) ==
  LET c == OwnerOf(id) IN
  /\ srv[id].st = "needworker" /\ MaxWorkers > 0
  /\ WorkerAvailable(pool.created, pool.free, MaxWorkers)
  /\ pool' = IF pool.free > 0 THEN [pool EXCEPT !.free = @ - 1] ELSE [pool EXCEPT !.created = @ + 1]
  /\ srv' = [srv EXCEPT ![id].st = "queued"]
  /\ sconn' = [sconn EXCEPT ![c].rl = IF @ = id THEN NoId ELSE @]
  /\ UNCHANGED <<call, writeQ, inFlight, cli, c2s, s2c, link, proxy, orph, mem, srvSt, pend>>

(* API boundary: the handler is entered.  HandleInline: with MaxWorkers=0  *)
(* it runs on the receive goroutine, which stays blocked (rl keeps id).    *)
HandlerEnter(id) ==
  /\ srv[id].st = "queued" \/ (srv[id].st = "needworker" /\ MaxWorkers = 0)
  /\ srv' = [srv EXCEPT ![id].st = "run"]
  /\ UNCHANGED <<call, writeQ, inFlight, cli, c2s, s2c, link, proxy, sconn, orph, pool, mem, srvSt, pend>>
(* callHandlerNoRecover: the deadline derived from custom_timeout_ms has   *)
(* passed before the handler could start                                   *)
HandlerSkipExpired(id) ==
  /\ srv[id].st = "queued" \/ (srv[id].st = "needworker" /\ MaxWorkers = 0)
  /\ call[id].tmo
  /\ srv' = [srv EXCEPT ![id].st = "exited", ![id].out = "tmo"]
  /\ UNCHANGED <<call, writeQ, inFlight, cli, c2s, s2c, link, proxy, sconn, orph, pool, mem, srvSt, pend>>
(* API boundary: the handler returns.  "tmo": its context's deadline       *)
(* (custom_timeout_ms) fired; "cancelled": the connection was closed.      *)
HandlerExit(id, o) ==
  /\ srv[id].st = "run"
  /\ o \in HandlerOuts
  /\ o = "tmo" => call[id].tmo
  /\ o = "cancelled" => ~srv[id].live
  /\ srv' = [srv EXCEPT ![id].st = "exited", ![id].out = o]
  /\ UNCHANGED <<call, writeQ, inFlight, cli, c2s, s2c, link, proxy, sconn, orph, pool, mem, srvSt, pend>>

(* serverConnTCP.SendResponse: request memory is released (after the       *)
(* handler), the response is queued unless the connection is stopped;      *)
(* then workerPool.Put                                                     *)
SendResponse(id) ==
  LET c == OwnerOf(id)
      push == srv[id].live /\ SOpen(c) IN
  /\ srv[id].st = "exited"
  /\ mem' = mem - Take(id)
  /\ pool' = IF MaxWorkers > 0 THEN [pool EXCEPT !.free = @ + 1] ELSE pool
  /\ srv' = [srv EXCEPT ![id].st = IF push THEN "resp" ELSE "gone"]
  /\ sconn' = [sconn EXCEPT ![c].wq = IF push THEN Append(@, id) ELSE @,
                            ![c].rl = IF @ = id THEN NoId ELSE @]
  /\ UNCHANGED <<call, writeQ, inFlight, cli, c2s, s2c, link, proxy, orph, srvSt, pend>>

(* sendLoopImpl                                                            *)
ServerSend(c) ==
  /\ SOpen(c) /\ sconn[c].wq # <<>>
  /\ LET id == Head(sconn[c].wq) IN
       /\ s2c' = [s2c EXCEPT ![c] = IF link[c] = "ok" THEN Append(@, RespP(id, srv[id].out)) ELSE @]
       /\ srv' = [srv EXCEPT ![id].st = "gone"]
  /\ sconn' = [sconn EXCEPT ![c].wq = Tail(@)]
  /\ UNCHANGED <<call, writeQ, inFlight, cli, c2s, link, proxy, orph, pool, mem, srvSt, pend>>
ServerSendLetsFin(c) ==
  /\ sconn[c].st = "shutdown"
  /\ sconn' = [sconn EXCEPT ![c].st = "finsent"]
  /\ s2c' = [s2c EXCEPT ![c] = IF link[c] = "ok" THEN Append(@, LetsFinP) ELSE @]
  /\ UNCHANGED <<call, writeQ, inFlight, cli, c2s, link, proxy, srv, orph, pool, mem, srvSt, pend>>

(* serverConnTCP.close: read/write error (EOF) or Server.Close.  Queued    *)
(* responses are released, handler contexts are cancelled (live = FALSE).  *)
(* Requests the old receive loop may still have read from its socket       *)
(* buffer become orphans.                                                  *)
SrvConnStop(c) ==
  /\ SOpen(c) /\ (link[c] = "broken" \/ srvSt = "closing")
  /\ sconn' = [sconn EXCEPT ![c] = [st |-> "stopped", rl |-> NoId, wq |-> <<>>]]
  /\ srv' = [id \in CallIds |->
               IF OwnerOf(id) # c THEN srv[id]
               ELSE IF srv[id].st = "resp" THEN [srv[id] EXCEPT !.st = "gone", !.live = FALSE]
               ELSE [srv[id] EXCEPT !.live = FALSE]]
  /\ orph' = IF AllowOrphans THEN orph \cup {p.q : p \in {x \in Range(c2s[c]) : x.k = "req"}} ELSE orph
  /\ c2s' = [c2s EXCEPT ![c] = <<>>]
  /\ link' = [link EXCEPT ![c] = "broken"]
  /\ UNCHANGED <<call, writeQ, inFlight, cli, s2c, proxy, pool, mem, srvSt, pend>>
OrphanRecv(id) ==
  /\ id \in orph
  /\ orph' = orph \ {id}
  /\ srv' = [srv EXCEPT ![id] = [st |-> "needmem", out |-> "none", live |-> FALSE]]
  /\ UNCHANGED <<call, writeQ, inFlight, cli, c2s, s2c, link, proxy, sconn, pool, mem, srvSt, pend>>
OrphanDrop(id) ==
  /\ id \in orph
  /\ orph' = orph \ {id}
  /\ UNCHANGED <<call, writeQ, inFlight, cli, c2s, s2c, link, proxy, sconn, srv, pool, mem, srvSt, pend>>

(* API boundary: Server.Shutdown() (graceful) and Server.Close(): called    *)
(* (logged), effective, returned.                                           *)
SrvShutdown ==      \* (calling Shutdown() after Close() is legal and has no effect)
  /\ Cmd("shutdown", "server", "") \notin pend
  /\ pend' = pend \cup {Cmd("shutdown", "server", "")}
  /\ UNCHANGED <<call, writeQ, inFlight, cli, c2s, s2c, link, proxy, sconn, srv, orph, pool, mem, srvSt>>
SrvShutdownDo ==
  /\ Cmd("shutdown", "server", "") \in pend
  /\ pend' = pend \ {Cmd("shutdown", "server", "")}
  /\ srvSt' = IF srvSt = "up" THEN "shutdown" ELSE srvSt
  /\ sconn' = [c \in Clients |-> IF sconn[c].st = "open" THEN [sconn[c] EXCEPT !.st = "shutdown"] ELSE sconn[c]]
  /\ UNCHANGED <<call, writeQ, inFlight, cli, c2s, s2c, link, proxy, srv, orph, pool, mem>>
SrvCloseBegin ==
  /\ srvSt \in {"up", "shutdown"} /\ Cmd("close", "server", "") \notin pend
  /\ pend' = pend \cup {Cmd("close", "server", "")}
  /\ UNCHANGED <<call, writeQ, inFlight, cli, c2s, s2c, link, proxy, sconn, srv, orph, pool, mem, srvSt>>
SrvCloseDo ==
  /\ Cmd("close", "server", "") \in pend
  /\ pend' = pend \ {Cmd("close", "server", "")}
  /\ srvSt' = "closing"
  /\ sconn' = [c \in Clients |-> IF sconn[c].st = "open" THEN [sconn[c] EXCEPT !.st = "shutdown"] ELSE sconn[c]]
  /\ UNCHANGED <<call, writeQ, inFlight, cli, c2s, s2c, link, proxy, srv, orph, pool, mem>>
SrvCloseEnd ==
  /\ srvSt = "closing"
  /\ \A c \in Clients : ~SOpen(c)
  /\ \A id \in CallIds : srv[id].st \in {"none", "gone"}
  /\ orph = {}
  /\ srvSt' = "closed"
  /\ UNCHANGED <<call, writeQ, inFlight, cli, c2s, s2c, link, proxy, sconn, srv, orph, pool, mem, pend>>

(* ========================== environment =============================== *)
(* fault: the transport of client c is cut (both directions); the proxy    *)
(* between client c and the server starts refusing / passing connections.  *)
(* Cut / SetProxy: the driver has started the operation (logged);          *)
(* CutDo / ProxyDo: it takes effect.                                       *)
Cut(c) ==
  /\ pend' = pend \cup {Cmd("cut", c, "")}
  /\ UNCHANGED <<call, writeQ, inFlight, cli, c2s, s2c, link, proxy, sconn, srv, orph, pool, mem, srvSt>>
CutDo(c) ==
  /\ Cmd("cut", c, "") \in pend
  /\ pend' = pend \ {Cmd("cut", c, "")}
  /\ link' = [link EXCEPT ![c] = IF cli[c].conn \in {"up", "dropped"} \/ SOpen(c) THEN "broken" ELSE @]
  /\ cli' = [cli EXCEPT ![c].hscut = IF cli[c].conn = "connecting" THEN TRUE ELSE @]
  /\ UNCHANGED <<call, writeQ, inFlight, c2s, s2c, proxy, sconn, srv, orph, pool, mem, srvSt>>
SetProxy(c, m) ==
  /\ \A x \in pend : ~(x.k = "proxy" /\ x.who = c)      \* one mode switch at a time
  /\ pend' = pend \cup {Cmd("proxy", c, m)}
  /\ UNCHANGED <<call, writeQ, inFlight, cli, c2s, s2c, link, proxy, sconn, srv, orph, pool, mem, srvSt>>
ProxyDo(c) ==
  \E m \in {"pass", "refuse", "hold"} :
    /\ Cmd("proxy", c, m) \in pend
    /\ pend' = pend \ {Cmd("proxy", c, m)}
    /\ proxy' = [proxy EXCEPT ![c] = m]
    /\ UNCHANGED <<call, writeQ, inFlight, cli, c2s, s2c, link, sconn, srv, orph, pool, mem, srvSt>>

(* commands the driver executes synchronously on its controller goroutine  *)
SyncPending == \E x \in pend : x.k \in {"cut", "proxy", "shutdown"}

---------------------------------------------------------------------------
(* internal (unobservable) steps of the implementation.  Mainline = what a  *)
(* run without faults and timeouts consists of; Deviations = the rest.  (The *)
(* split only orders the disjuncts: a depth-first trace validation tries the *)
(* mainline steps first.)                                                    *)
Deviations ==
  \/ \E id \in CallIds : CtxDeadline(id) \/ SetupExpired(id) \/ HandlerSkipExpired(id) \/ RecvAbort(id)
                         \/ OrphanDrop(id) \/ OrphanRecv(id) \/ BodyReadDeadline(id)
  \/ \E c \in Clients : ConnectFail(c) \/ SrvConnStop(c) \/ ConnDrop(c) \/ MassCancel(c)
Mainline ==
  \/ \E c \in Clients : CliCloseDo(c) \/ CutDo(c) \/ ProxyDo(c)
  \/ SrvShutdownDo \/ SrvCloseDo
  \/ \E id \in CallIds : CancelCall(id)
  \/ \E c \in Clients : ServerSendLetsFin(c) \/ ClientRecv(c) \/ ServerSend(c)
  \/ \E id \in CallIds : SendResponse(id) \/ GetWorker(id) \/ AcquireMem(id)
  \/ \E c \in Clients : RecvHdr(c) \/ SendFromWriteQ(c) \/ Connect(c)
  \/ \E id \in CallIds : SetupCall(id)
Internal == Deviations \/ Mainline

(* steps visible at the API boundary (driven by the caller / handler / operator) *)
Visible ==
  \/ \E id \in CallIds : (\E t, f \in BOOLEAN : Invoke(id, t, f)) \/ CtxCancel(id) \/ Return(id)
                         \/ HandlerEnter(id) \/ (\E o \in HandlerOuts : HandlerExit(id, o))
  \/ \E c \in Clients : CliCloseBegin(c) \/ Cut(c) \/ (\E m \in {"pass", "refuse", "hold"} : SetProxy(c, m))
  \/ SrvShutdown \/ SrvCloseBegin

Next == Internal \/ Visible

---------------------------------------------------------------------------
(* ============================ properties ============================== *)

(* a call's result channel (capacity 1, written under pc.mu) is written at *)
(* most once                                                               *)
AtMostOnce == \A id \in CallIds : call[id].nd <= 1

(* whatever a call holds or returned is the outcome of ITS request or its  *)
(* own local error                                                         *)
OwnRes(id, r) ==
  \/ r = Empty
  \/ /\ r.k \in HandlerOuts \ {"cancelled"}
     /\ r.from = id
     /\ srv[id].st \in {"resp", "gone"} /\ srv[id].out = r.k       \* produced by its handler
  \/ /\ r.k \in LocalErrs /\ r.from = NoId
     /\ r.k = "cancel" => call[id].ctx = "cancel"
     /\ r.k = "deadline" => call[id].tmo /\ call[id].exp
     /\ r.k = "clientClosed" => cli[OwnerOf(id)].closed
     /\ r.k = "closedNoSE" => call[id].ff \/ cli[OwnerOf(id)].closed
OwnOutcome == \A id \in CallIds : OwnRes(id, call[id].slot) /\ OwnRes(id, call[id].rv)

(* pc.inFlight counts exactly the sent calls still in pc.calls             *)
InFlightOK == \A c \in Clients : inFlight[c] = Cardinality(SentCalls(c)) /\ inFlight[c] >= 0
(* a request in the write queue whose call is still known is unsent        *)
(* ("double sent" / "wrong request in queue" panics of the code)           *)
WriteQOK == \A c \in Clients : \A e \in Range(writeQ[c]) :
              e.k = "req" => OwnerOf(e.q) = c /\ call[e.q].st # "sent"
(* a delivered result empties the map entry: nothing waits with a full slot and a map entry *)
SlotOK == \A id \in CallIds : call[id].slot # Empty => call[id].st = "none" /\ call[id].pc = "wait"

(* C39: worker and request-memory limits                                   *)
WorkerBound ==
  /\ MaxWorkers > 0 => /\ pool.created <= MaxWorkers /\ pool.free >= 0
                       /\ Cardinality(Busy) = pool.created - pool.free
                       /\ Cardinality(Running) <= MaxWorkers
  /\ MaxWorkers = 0 => Cardinality(Running) <= Cardinality(Clients)      \* HandleInline: one per connection
MemBound ==
  /\ mem = SumTake(Holding)
  /\ mem <= MemLimit
(* a request waiting for memory or a worker is neither answered nor forgotten *)
WaitingNotDropped == \A id \in CallIds :
   srv[id].st \in {"needmem", "needworker"} /\ srv[id].live => sconn[OwnerOf(id)].rl = id

(* no response is matched to a queryID that is not in calls (action property) *)
OnlyKnownFinish ==
  [][\A id \in CallIds : call'[id].nd > call[id].nd => call[id].st # "none"]_vars
(* a finished call never comes back *)
DoneIsFinal == [][\A id \in CallIds : call[id].pc = "done" => call'[id] = call[id]]_vars

TypeOK ==
  /\ \A id \in CallIds :
        /\ call[id].pc \in {"new", "inv", "wait", "ret", "done"}
        /\ call[id].st \in {"none", "unsent", "sent"}
        /\ call[id].ctx \in {"live", "cancel", "deadline"}
        /\ srv[id].st \in {"none", "needmem", "needworker", "queued", "run", "exited", "resp", "gone"}
  /\ \A c \in Clients :
        /\ cli[c].conn \in {"idle", "connecting", "up", "dropped"}
        /\ sconn[c].st \in {"none", "open", "shutdown", "finsent", "stopped"}
  /\ srvSt \in {"up", "shutdown", "closing", "closed"}

(* ---- liveness (fair scheduler of the implementation's own steps) ----   *)
(* Every step of Progress moves some call, request or connection strictly   *)
(* forward, so weak fairness of the disjunction is enough: it cannot be     *)
(* satisfied for ever by steps other than the one a property is waiting for. *)
(* (The reconnect loop ConnectFail / Connect is not part of it.)             *)
Progress ==
  \/ \E id \in CallIds : SetupCall(id) \/ CancelCall(id) \/ Return(id) \/ AcquireMem(id) \/ RecvAbort(id)
                         \/ GetWorker(id) \/ SendResponse(id) \/ OrphanDrop(id)
  \/ \E c \in Clients : SendFromWriteQ(c) \/ ClientRecv(c) \/ ConnDrop(c) \/ MassCancel(c) \/ RecvHdr(c)
                        \/ ServerSend(c) \/ ServerSendLetsFin(c) \/ SrvConnStop(c)
                        \/ CliCloseDo(c) \/ CutDo(c) \/ ProxyDo(c)
  \/ SrvShutdownDo \/ SrvCloseDo
Fairness == WF_vars(Progress)
Spec == Init /\ [][Next]_vars /\ Fairness

Pending(id) == call[id].pc \in {"inv", "wait", "ret"}
(* after Close of the client every started call returns                    *)
ClientCloseReturnsAll ==
  \A id \in CallIds : ((cli[OwnerOf(id)].closed \/ Cmd("close", OwnerOf(id), "") \in pend) /\ Pending(id)) ~> (call[id].pc = "done")
(* after Close of the server every call that was sent returns; an unsent   *)
(* one is re-queued for the next connection (RequeueUnsent)                *)
ServerCloseReturnsSent ==
  \A id \in CallIds : ((srvSt \in {"closing", "closed"} \/ Cmd("close", "server", "") \in pend) /\ call[id].st = "sent") ~> (call[id].pc = "done")
(* excess load waits and is then served: with handlers that return, a      *)
(* request admitted to the receive loop of a live connection is answered   *)
=============================================================================
