CONSTANTS
  NP = @NP@
  Weights = @WEIGHTS@
  Sizes = @SIZES@
  MaxForced = @MAXFORCED@
INIT Init
NEXT Next
INVARIANTS TypeOK QueueConsistent Accounting HeadBlocked DoomedNotQueued
PROPERTIES NoOverAdmit FIFO
CHECK_DEADLOCK TRUE
