-------------------------- MODULE MC_SchemaSpace --------------------------
(***************************************************************************)
(* Instances of SchemaSpace used by the generator-CLI checks:              *)
(*  - C14 (MC_SchemaSpace.cfg): schemas x option rows, exhaustive for tiny *)
(*    bounds and -simulate sampled above them; every state is emitted and  *)
(*    rendered/generated/built by the harness;                             *)
(*  - C24 (MC_SchemaTags.cfg): tag assignments over fixed small schemas;   *)
(*  - C26 (MC_SchemaTLO.cfg): small schemas incl. XOR-colliding tags whose *)
(*    TLO files are compared with TLOView.                                 *)
(***************************************************************************)
EXTENDS SchemaSpace, Json

CONSTANTS OptRows,     \* generator option rows (C14)
          MaxTags,     \* explicit tags per schema (C24/C26)
          BaseIds      \* which base schemas to start from (C24/C26)

VARIABLE opt

MCNameMenu == { [cn |-> "foo", tn |-> "Foo"], [cn |-> "fooBar", tn |-> "FooBar"],
                [cn |-> "foobar", tn |-> "Foobar"], [cn |-> "reset", tn |-> "Reset"],
                [cn |-> "item", tn |-> "Item"] }
MCNameMenuSmall == { [cn |-> "foo", tn |-> "Foo"], [cn |-> "fooBar", tn |-> "FooBar"], [cn |-> "foobar", tn |-> "Foobar"] }
(* names that differ only by "namespace separator vs case": ab.cd / abCd, a.bC / aB.c (constructors)
   and ab.Cd / AbCd (types only: p, q) *)
MCNameMenuSep == { [cn |-> "cd", tn |-> "Cd"], [cn |-> "abCd", tn |-> "AbCd"], [cn |-> "bC", tn |-> "BC"],
                   [cn |-> "c", tn |-> "C"], [cn |-> "p", tn |-> "Cd"], [cn |-> "q", tn |-> "AbCd"] }
MCUnionMenuNone == {}
MCKindsNone == {}
MCNameMenuOne == { [cn |-> "foo", tn |-> "Foo"] }
MCMutationsNone == {}
MCUnionMenu == { [tn |-> "Shape", vs |-> <<"shapeCircle", "shapeSquare", "shapeNone">>] }
MCFieldNames == {"x", "y", "z", "w", "key", "value", "id", "count", "type", "func", "range", "map",
                 "fields_mask", "item", "Item", "reset", "String"}
(* catalogue of names of methods the Go generator emits for every struct *)
MCFieldNamesMethods == {"x", "reset", "string", "tLTag", "tLName", "readJSON", "writeJSON", "readTL1", "writeTL1",
                        "readTL2", "writeTL2", "read", "write", "fillRandom", "Reset", "String", "TLTag", "TLName",
                        "ReadJSON", "Read", "Write"}
(* names that collide only after deconfliction: `write` becomes Write0 (Write is a generated method),
   which a literal `write0` then meets; likewise string / string0 and a three-way x / X / x0 family *)
MCFieldNamesDeconf == {"x", "write", "write0", "Write0", "string", "string0", "reset0", "reset"}
MCFieldNamesSmall == {"x", "type", "String"}
MCFieldNamesTiny == {"x", "type"}
MCFieldNamesOne == {"v"}
MCMutationsTiny == {"unknownref", "dupcomb", "selfbare"}
MCKinds == {"nat", "int", "long", "string", "bool", "double", "mtrue", "mint", "vec", "maybe", "arr", "arrc",
            "tuplec", "ref", "rec", "dict", "dictany", "pair", "tinst"}
MCKindsSmall == {"nat", "int", "string", "mtrue", "vec", "ref", "rec"}
MCKindsInt == {"int"}
MCKindsCore == {"nat", "int", "rec", "mtrue", "dict"}
MCKindsTmpl == {"int", "tinst"}
MCKindsTLO == {"nat", "int", "string", "mint", "vec", "ref", "tinst"}
MCMutations == {"dupfield", "unknownref", "masknonnat", "maskforward", "bit32", "dupcomb", "selfbare",
                "arity", "natfortype", "upperctor", "syntax"}

---------------------------------------------------------------------------
(* C14 *)
Init14 == Init /\ opt \in OptRows
(* the option row is part of the stimulus: any schema can be paired with any row *)
SwitchOpt == /\ Len(schema) >= 1 /\ \E o \in OptRows \ {opt} : opt' = o
             /\ UNCHANGED <<schema, mut>>
Next14 == (Next /\ UNCHANGED opt) \/ SwitchOpt

Emit == PrintT(ToJson(<<"@@", [schema |-> schema, mut |-> mut, opt |-> opt, accepted |-> Accepted,
                              wf |-> WellFormed, tagsok |-> TagsOK, eff |-> [i \in Idx |-> Eff(i)]]>>))

---------------------------------------------------------------------------
(* C24 / C26: fixed base schemas, only tags vary *)
C(kind, ns, cn, tn, fields, res, tl2) ==
  [kind |-> kind, ns |-> ns, cn |-> cn, tn |-> tn, targs |-> <<>>, fields |-> fields, res |-> res, tag |-> NoTag, tl2 |-> tl2]
F(n, k) == Fld(n, k, 0, 0, FALSE)

Bases ==
  [ b1 |-> << C("struct", "a", "foo", "Foo", <<F("x", "int"), F("y", "string")>>, NoRes, FALSE),
              C("func", "a", "put", "", <<F("m", "nat"), Fld("z", "mint", 1, 0, FALSE)>>, [k |-> "bool", a |-> 0], FALSE),
              C("func", "a", "get", "", <<F("id", "int")>>, [k |-> "ref", a |-> 1], FALSE) >>,
    b2 |-> << C("variant", "", "shapeCircle", "Shape", <<F("r", "int")>>, NoRes, FALSE),
              C("variant", "", "shapeSquare", "Shape", <<F("s", "long")>>, NoRes, FALSE),
              C("struct", "b", "item", "Item", <<F("x", "string")>>, NoRes, FALSE),
              C("func", "b", "set", "", <<F("v", "long")>>, [k |-> "bool", a |-> 0], FALSE) >>,
    b3 |-> << C("struct", "a", "foo", "Foo", <<F("x", "int")>>, NoRes, FALSE),
              C("func", "a", "get", "", <<F("id", "int")>>, [k |-> "int", a |-> 0], FALSE),
              C("struct", "x", "point", "", <<F("a", "int"), F("b", "int")>>, NoRes, TRUE),
              \* TL2 functions must carry a magic
              [C("func", "x", "getPoint", "", <<F("id", "int")>>, [k |-> "int", a |-> 0], TRUE) EXCEPT !.tag = [k |-> "fresh", a |-> 4, b |-> 0]] >>,
    \* a TL2 function with a magic declared BEFORE a TL2 type and another TL2 function (which may copy it)
    b5 |-> << C("struct", "a", "foo", "Foo", <<F("x", "int")>>, NoRes, FALSE),
              [C("func", "x", "getPoint", "", <<F("id", "int")>>, [k |-> "int", a |-> 0], TRUE) EXCEPT !.tag = [k |-> "fresh", a |-> 2, b |-> 0]],
              C("struct", "x", "point", "", <<F("a", "int"), F("b", "int")>>, NoRes, TRUE),
              C("struct", "x", "size", "", <<F("w", "int")>>, NoRes, TRUE) >>,
    b4 |-> << C("variant", "", "shapeCircle", "Shape", <<F("r", "int")>>, NoRes, FALSE),
              C("variant", "", "shapeSquare", "Shape", <<F("s", "long")>>, NoRes, FALSE),
              C("struct", "b", "item", "Item", <<F("x", "string")>>, NoRes, FALSE),
              C("struct", "b", "foo", "Foo", <<F("y", "int")>>, NoRes, FALSE) >> ]

NTags == Cardinality({i \in Idx : schema[i].tag.k # "none"})
InitTags == /\ \E b \in BaseIds : schema = Bases[b]
            /\ mut = "none" /\ opt = "lint"
NextTags == NTags < MaxTags /\ SetExplicitTag /\ UNCHANGED opt
=============================================================================
