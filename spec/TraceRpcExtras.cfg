CONSTANTS
  MaxEdits = 0
  CtxMs = 60000
INIT TInit
NEXT TNext
INVARIANT EventOK
CHECK_DEADLOCK FALSE
