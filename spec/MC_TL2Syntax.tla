--------------------------- MODULE MC_TL2Syntax ---------------------------
(***************************************************************************)
(* Case space of the TL2 concrete syntax as a state machine.               *)
(*   Mode "tok"    : token strings over the TL2 token alphabet (BFS, or    *)
(*                   -simulate for token soups).                           *)
(*   Mode "derive" : (partial) derivations of a TL2 file, production by    *)
(*                   production, bounded by weight; a complete derivation  *)
(*                   may be stretched (a name padded so that the one-line  *)
(*                   form has a length next to a line-breaking threshold   *)
(*                   of the formatter), laid out, or mutated.              *)
(* (Character-level lexing of TL2: MC_TLSyntax with Lang = 2.)             *)
(***************************************************************************)
EXTENDS TL2Syntax

CONSTANTS Mode, MaxToks, TokSel, PruneToks, EmitEvery,
          MaxW, MaxCombs, MutW, LayoutSel,
          Focus        \* TRUE (mode derive): the initial states are the complete derivations of NumFocus (a number in
                       \* every position that takes one); with MaxW = 0 only Layout and Mutate act on them

VARIABLE st

RECURSIVE Pad(_)
Pad(k) == IF k <= 0 THEN "" ELSE "z" \o Pad(k - 1)
(* names of the model that start with a lower-case letter (paddings of x and k: see LongNamesLower) *)
LowerNamesMC == {"a", "b", "b1", "int", "v", "n", "x", "x1", "t", "k", "y"}
Alphabet == IF TokSel = "core" THEN Core2 ELSE Alphabet2

---------------------------------------------------------------------------
(* pools by weight, tables of zero-arity definitions (evaluated once) *)
Min2(a, b) == IF a < b THEN a ELSE b
Atoms2(w) == CASE w = 0 -> {T2("", "int", <<>>)}
               [] w = 1 -> {T2("", "Int", <<>>), T2("ns", "v", <<>>), T2("ns", "V", <<>>)}
               [] OTHER -> {}
Nums2(w) == CASE w = 0 -> {A2N(N(3))} [] w = 1 -> {A2N(N(0)), A2N(NMax)} [] OTHER -> {}
Ty2Level(w, T) ==
  LET ArgW(v) == {A2T(t) : t \in T[v + 1]} \cup Nums2(v)
      Vec  == IF w < 1 THEN {} ELSE {Br2(<<>>, e) : e \in T[w]}
      Idx  == IF w < 1 THEN {} ELSE UNION {{Br2(<<a>>, e) : a \in ArgW(wa), e \in T[w - wa]} : wa \in 0..(w - 1)}
      App1 == IF w < 1 THEN {} ELSE UNION {{[h EXCEPT !.as = <<a>>] : h \in Atoms2(wh), a \in ArgW(w - 1 - wh)} : wh \in 0..Min2(1, w - 1)}
      App2 == IF w < 2 THEN {}
              ELSE UNION {UNION {{[h EXCEPT !.as = <<a, b>>] : h \in Atoms2(wh), a \in ArgW(wa), b \in ArgW(w - 2 - wh - wa)}
                                 : wa \in 0..(w - 2 - wh)} : wh \in 0..Min2(1, w - 2)}
  IN Atoms2(w) \cup Vec \cup Idx \cup App1 \cup App2
Y0 == Ty2Level(0, <<>>)
Y1 == Ty2Level(1, <<Y0>>)
Y2 == Ty2Level(2, <<Y0, Y1>>)
Y3 == Ty2Level(3, <<Y0, Y1, Y2>>)
Ty2Tab == <<Y0, Y1, Y2, Y3>>
MaxTW2 == 3
Ty2W(w) == IF w < 0 \/ w > MaxTW2 THEN {} ELSE Ty2Tab[w + 1]

FName2(w) == CASE w = 0 -> {<<"x", FALSE, FALSE>>}
               [] w = 1 -> {<<"Y", FALSE, FALSE>>, <<"_", FALSE, TRUE>>, <<"_old", FALSE, TRUE>>, <<"k", TRUE, FALSE>>}
               [] OTHER -> {}
Cb2(w) == CASE w = 0 -> {<<>>} [] w = 1 -> {<<"// c">>} [] w = 2 -> {<<"// c1", "//c2 // x">>} [] OTHER -> {}
Cr2(w) == CASE w = 0 -> {""} [] w = 1 -> {"// r"} [] OTHER -> {}
Splits4(w) == {s \in (0..w) \X (0..w) \X (0..w) \X (0..w) : s[1] + s[2] + s[3] + s[4] = w}
Field2Gen(w) == IF w < 1 THEN {}
                ELSE UNION {{F2(nm[1], nm[2], nm[3], t, cb, cr) : nm \in FName2(s[1]), cb \in Cb2(s[2]), cr \in Cr2(s[3]), t \in Ty2W(s[4])}
                            : s \in Splits4(w - 1)}
G1 == Field2Gen(1)
G2 == Field2Gen(2)
G3 == Field2Gen(3)
G4 == Field2Gen(4)
Field2Tab == <<G1, G2, G3, G4>>
MaxFW2 == 4
ASSUME PrintT(<<"TL2 pool sizes: types", Cardinality(Y0), Cardinality(Y1), Cardinality(Y2), Cardinality(Y3),
                "fields", Cardinality(G1), Cardinality(G2), Cardinality(G3), Cardinality(G4)>>)

Names2(w) == CASE w = 0 -> {<<"", "a">>} [] w = 1 -> {<<"ns", "b1">>, <<"", "A">>} [] OTHER -> {}
Magics(w) == CASE w = 0 -> {""} [] w = 1 -> {"1234abcd"} [] w = 2 -> {"ffffffff"} [] OTHER -> {}
Anns2(w)  == CASE w = 0 -> {<<>>} [] w = 1 -> {<<"read">>} [] w = 2 -> {<<"x1", "any">>} [] OTHER -> {}
TArgs2(w) == CASE w = 1 -> {[n |-> "t", nat |-> FALSE], [n |-> "n", nat |-> TRUE]} [] OTHER -> {}
VNames(w) == CASE w = 0 -> {"A"} [] w = 1 -> {"b"} [] w = 2 -> {"Type"} [] OTHER -> {}

Layouts2 == <<
  [sep |-> "min",  bar |-> FALSE, comma |-> FALSE],
  [sep |-> "sp",   bar |-> TRUE,  comma |-> TRUE],
  [sep |-> "nl",   bar |-> FALSE, comma |-> FALSE],
  [sep |-> "mix",  bar |-> TRUE,  comma |-> TRUE],
  [sep |-> "crlf", bar |-> FALSE, comma |-> TRUE],
  [sep |-> "tab",  bar |-> TRUE,  comma |-> FALSE] >>
ASSUME LayoutSel \subseteq 1..Len(Layouts2)

---------------------------------------------------------------------------
NoDef  == [al |-> FALSE, t |-> <<>>, un |-> FALSE, fs |-> <<>>, vs |-> <<>>]
NoComb2 == [an |-> <<>>, ns |-> "", nm |-> "", mg |-> "", fn |-> FALSE, ta |-> <<>>, def |-> <<>>, args |-> <<>>, ret |-> <<>>, cb |-> <<>>]

(* a number in every position of the grammar that takes one: generic argument (alone, after a type, nested, *)
(* inside an index), array size (outer, nested), in aliases, function arguments and results, union variants *)
IntT == T2("", "int", <<>>)
X(t) == F2("x", FALSE, FALSE, t, <<>>, "")
Three == A2N(N(3))
Struct2(fs) == [NoComb2 EXCEPT !.nm = "a", !.def = <<DefStruct(fs)>>]
NumFocus ==
  { Struct2(<<X(T2("", "int", <<Three>>))>>),
    Struct2(<<X(T2("", "int", <<A2T(IntT), Three>>))>>),
    Struct2(<<X(T2("", "int", <<A2T(T2("ns", "V", <<Three>>))>>))>>),
    Struct2(<<X(Br2(<<Three>>, IntT))>>),
    Struct2(<<X(Br2(<<Three>>, Br2(<<Three>>, IntT)))>>),
    Struct2(<<X(Br2(<<A2T(T2("", "int", <<Three>>))>>, IntT))>>),
    Struct2(<<X(Br2(<<>>, T2("", "int", <<Three>>)))>>),
    [NoComb2 EXCEPT !.nm = "a", !.mg = "1234abcd", !.def = <<DefAlias(Br2(<<Three>>, IntT))>>],
    [NoComb2 EXCEPT !.nm = "a", !.def = <<DefAlias(T2("", "int", <<Three>>))>>],
    [NoComb2 EXCEPT !.nm = "a", !.def = <<DefUnion(<<VarAlias("A", T2("", "int", <<Three>>), <<>>), VarFields("b", <<X(Br2(<<Three>>, IntT))>>, <<>>)>>)>>],
    [NoComb2 EXCEPT !.nm = "a", !.fn = TRUE, !.mg = "0000beef", !.args = <<X(Br2(<<Three>>, IntT))>>,
                    !.ret = <<[NoDef EXCEPT !.fs = <<F2("", FALSE, FALSE, T2("", "int", <<Three>>), <<>>, "")>>]>>],
    [NoComb2 EXCEPT !.nm = "a", !.fn = TRUE, !.mg = "ffffffff", !.ret = <<DefAlias(Br2(<<Three>>, IntT))>>] }

Init == CASE Mode = "tok"    -> st = [ph |-> "tok", sig |-> <<>>]
          [] Mode = "derive" /\ Focus -> st \in {[ph |-> "idle", done |-> <<c>>, cur |-> NoComb2, w |-> 0, str |-> TRUE] : c \in NumFocus}
          [] Mode = "derive" /\ ~Focus -> st = [ph |-> "start", done |-> <<>>, cur |-> NoComb2, w |-> 0, str |-> FALSE]

AppendTok == /\ st.ph = "tok" /\ Len(st.sig) < MaxToks
             /\ \E t \in Alphabet :
                  /\ PruneToks => /\ ~(Len(st.sig) > 0 /\ t \in Punct2Toks /\ st.sig[Len(st.sig)] = t)
                                  /\ ~(BadLen(t) > 0 /\ \E i \in 1..Len(st.sig) : BadLen(st.sig[i]) > 0)
                  /\ st' = [st EXCEPT !.sig = Append(@, t)]

Left == MaxW - st.w
(* phases: start/idle -> (struct | union | fn | alias) ... -> idle *)
D2Start == /\ st.ph \in {"start", "idle"} /\ Len(st.done) < MaxCombs
           /\ \E wn \in 0..1, wm \in 0..2, wa \in 0..2, wc \in 0..2, kind \in {"struct", "alias", "union", "fn"} :
                LET extra == (IF st.done = <<>> THEN 0 ELSE 1) + (IF kind = "struct" THEN 0 ELSE 1)
                    cost == wn + wm + wa + wc + extra IN
                /\ cost <= Left
                /\ \E nm \in Names2(wn), mg \in Magics(wm), an \in Anns2(wa), cb \in Cb2(wc) :
                     st' = [st EXCEPT !.ph = kind, !.w = @ + cost,
                              !.cur = [NoComb2 EXCEPT !.ns = nm[1], !.nm = nm[2], !.an = an, !.cb = cb, !.fn = (kind = "fn"),
                                                      !.mg = IF kind = "fn" /\ mg = "" THEN "0000beef" ELSE mg,      \* a function needs a magic
                                                      !.def = IF kind = "fn" THEN <<>> ELSE <<NoDef>>]]
D2TArg == /\ st.ph \in {"struct", "alias", "union"} /\ Len(st.cur.ta) < 2 /\ Left >= 1
          /\ st.cur.def[1] = NoDef
          /\ \E a \in TArgs2(1) : /\ \A i \in 1..Len(st.cur.ta) : st.cur.ta[i].n # a.n
                                  /\ st' = [st EXCEPT !.w = @ + 1, !.cur.ta = Append(@, a)]
D2Field == /\ st.ph \in {"struct", "fn"} /\ Len(IF st.ph = "fn" THEN st.cur.args ELSE st.cur.def[1].fs) < 3
           /\ \E w \in 1..MaxFW2 : /\ w <= Left
                                   /\ \E f \in Field2Tab[w] :
                                        st' = IF st.ph = "fn" THEN [st EXCEPT !.w = @ + w, !.cur.args = Append(@, f)]
                                              ELSE [st EXCEPT !.w = @ + w, !.cur.def[1].fs = Append(@, f)]
(* a function chooses the form of its result; its fields / variants are then added like those of a type *)
D2Ret == /\ st.ph = "fn"
         /\ \/ \E w \in 0..MaxTW2 : w <= Left /\ \E t \in Ty2W(w) :            \* => T  (one anonymous field)
                  st' = [st EXCEPT !.ph = "finish", !.w = @ + w,
                           !.cur.ret = <<[NoDef EXCEPT !.fs = <<F2("", FALSE, FALSE, t, <<>>, "")>>]>>]
            \/ \E w \in 0..MaxTW2 : w + 1 <= Left /\ \E t \in Ty2W(w) :        \* => <=> T
                  st' = [st EXCEPT !.ph = "finish", !.w = @ + w + 1, !.cur.ret = <<DefAlias(t)>>]
            \/ Left >= 1 /\ st' = [st EXCEPT !.ph = "retstruct", !.w = @ + 1, !.cur.ret = <<NoDef>>]
            \/ Left >= 1 /\ st' = [st EXCEPT !.ph = "retunion", !.w = @ + 1, !.cur.ret = <<[NoDef EXCEPT !.un = TRUE]>>]
D2RetField == /\ st.ph = "retstruct" /\ Len(st.cur.ret[1].fs) < 2
              /\ \E w \in 1..MaxFW2 : w <= Left /\ \E f \in Field2Tab[w] :
                   st' = [st EXCEPT !.w = @ + w, !.cur.ret[1].fs = Append(@, f)]
D2Alias == /\ st.ph = "alias"
           /\ \E w \in 0..MaxTW2 : /\ w <= Left
                                   /\ \E t \in Ty2W(w) : st' = [st EXCEPT !.ph = "finish", !.w = @ + w, !.cur.def = <<DefAlias(t)>>]
(* union variants: name, then either a type (alias form) or fields *)
CurUnion == IF st.ph = "retunion" THEN st.cur.ret[1] ELSE st.cur.def[1]
SetUnion(s, d) == IF s.ph = "retunion" THEN [s EXCEPT !.cur.ret = <<d>>] ELSE [s EXCEPT !.cur.def = <<d>>]
D2Variant == /\ st.ph \in {"union", "retunion"} /\ Len(CurUnion.vs) < 3
             /\ \E wn \in 0..2, wc \in 0..1 :
                  /\ (IF CurUnion.vs = <<>> THEN 0 ELSE 1) + wn + wc <= Left
                  /\ \E nm \in VNames(wn), cb \in Cb2(wc) :
                       \/ st' = [SetUnion(st, [CurUnion EXCEPT !.un = TRUE, !.vs = Append(@, VarFields(nm, <<>>, cb))])
                                   EXCEPT !.w = @ + (IF CurUnion.vs = <<>> THEN 0 ELSE 1) + wn + wc]
                       \/ \E wt \in 0..2 : /\ (IF CurUnion.vs = <<>> THEN 0 ELSE 1) + wn + wc + wt + 1 <= Left
                                           /\ \E t \in Ty2W(wt) :
                                                st' = [SetUnion(st, [CurUnion EXCEPT !.un = TRUE, !.vs = Append(@, VarAlias(nm, t, cb))])
                                                         EXCEPT !.w = @ + (IF CurUnion.vs = <<>> THEN 0 ELSE 1) + wn + wc + wt + 1]
D2VarField == /\ st.ph \in {"union", "retunion"} /\ CurUnion.vs # <<>>
              /\ LET n == Len(CurUnion.vs) v == CurUnion.vs[n] IN
                 /\ ~v.al /\ Len(v.fs) < 2
                 /\ \E w \in 1..MaxFW2 : w <= Left /\ \E f \in Field2Tab[w] :
                      st' = [SetUnion(st, [CurUnion EXCEPT !.vs[n].fs = Append(@, f)]) EXCEPT !.w = @ + w]
D2Finish == /\ \/ st.ph \in {"struct", "finish", "retstruct"}
               \/ st.ph \in {"union", "retunion"} /\ CurUnion.vs # <<>>
            /\ st' = [st EXCEPT !.ph = "idle", !.done = Append(@, st.cur), !.cur = NoComb2]

(* Stretch: pad the name of the last field of the last declaration so that the measured one-line length is *)
(* threshold + d                                                                                           *)
LastDef(c) == IF c.fn THEN c.ret[1] ELSE c.def[1]
StretchDecl(c, k) ==       \* pad the last field of a struct / of the arguments
  IF c.fn /\ c.args # <<>> THEN [c EXCEPT !.args[Len(c.args)].n = @ \o Pad(k)]
  ELSE IF ~c.fn /\ ~c.def[1].al /\ ~c.def[1].un /\ c.def[1].fs # <<>> THEN [c EXCEPT !.def[1].fs[Len(c.def[1].fs)].n = @ \o Pad(k)]
  ELSE c
StretchVar(c, k) ==        \* pad the last field of the last variant of a union type
  IF ~c.fn /\ c.def[1].un /\ c.def[1].vs[Len(c.def[1].vs)].fs # <<>>
  THEN LET n == Len(c.def[1].vs) m == Len(c.def[1].vs[n].fs) IN [c EXCEPT !.def[1].vs[n].fs[m].n = @ \o Pad(k)]
  ELSE c
Paddable(f) == ~f.ign /\ f.n \in {"x", "k"}
Stretch == /\ st.ph = "idle" /\ ~st.str /\ Left >= 1
           /\ LET n == Len(st.done) c == st.done[n] IN
              \E d \in {-1, 0, 1, 2} :
                \/ LET k == OneLine + d - (Len(FComb([c EXCEPT !.cb = <<>>], CanonicalOpts)) - 1)
                       c2 == StretchDecl(c, k) IN
                   /\ k >= 1 /\ c2 # c
                   /\ (IF c.fn THEN Paddable(c.args[Len(c.args)]) ELSE Paddable(c.def[1].fs[Len(c.def[1].fs)]))
                   /\ st' = [st EXCEPT !.str = TRUE, !.w = @ + 1, !.done[n] = c2]
                \/ /\ ~c.fn /\ c.def[1].un
                   /\ LET v == c.def[1].vs[Len(c.def[1].vs)]
                          k == UnionLine + d - (3 + Len(FVariant(v, CanonicalOpts, 0)))
                          c2 == StretchVar(c, k) IN
                      /\ k >= 1 /\ ~v.al /\ v.fs # <<>> /\ Paddable(v.fs[Len(v.fs)]) /\ c2 # c
                      /\ st' = [st EXCEPT !.str = TRUE, !.w = @ + 1, !.done[n] = c2]

Layout == /\ st.ph = "idle"
          /\ \E l \in LayoutSel : st' = [ph |-> "laid", done |-> st.done, w |-> st.w, l |-> l]
Mutate == /\ st.ph = "idle" /\ st.w < MutW /\ (Focus \/ ~st.str)
          /\ LET s == SelectSeq(File2Toks(st.done, Layouts2[1]), LAMBDA t : ~Fixed2(t)) IN
             \/ \E i \in 1..Len(s) : st' = [ph |-> "mut", how |-> "delete", sig |-> MutDelete(s, i)]
             \/ \E i \in 1..Len(s) : st' = [ph |-> "mut", how |-> "dup", sig |-> MutDup(s, i)]
             \/ \E i \in 1..(Len(s) - 1) : st' = [ph |-> "mut", how |-> "swap", sig |-> MutSwap(s, i)]
             \/ \E i \in 1..(Len(s) - 1) : st' = [ph |-> "mut", how |-> "trunc", sig |-> MutTrunc(s, i)]
             \/ \E i \in 1..Len(s), t \in Alphabet2 : st' = [ph |-> "mut", how |-> "replace", sig |-> MutReplace(s, i, t)]
             \/ \E i \in 1..Len(s), t \in Punct2Toks : st' = [ph |-> "mut", how |-> "insert", sig |-> MutInsert(s, i, t)]

Next == AppendTok \/ D2Start \/ D2TArg \/ D2Field \/ D2Ret \/ D2RetField \/ D2Alias \/ D2Variant \/ D2VarField \/ D2Finish
        \/ Stretch \/ Layout \/ Mutate

---------------------------------------------------------------------------
TokPairs(toks) == [i \in 1..Len(toks) |-> <<toks[i].k, toks[i].s>>]
Payload ==
  CASE st.ph = "tok" -> [ph |-> "tok", toks |-> TokPairs(Spaced(st.sig)), exp |-> ExpectSpaced(st.sig, 2)]
    [] st.ph = "mut" -> [ph |-> "mut", how |-> st.how, toks |-> TokPairs(Spaced(st.sig)), exp |-> ExpectSpaced(st.sig, 2)]
    [] st.ph = "laid" ->
         LET lay == Layouts2[st.l]
             r == Render2(st.done, lay)
             e == [i \in 1..Len(st.done) |-> ParsedAs(st.done[i])]
         IN [ph |-> "laid", w |-> st.w, l |-> st.l, ast |-> e, toks |-> TokPairs(r), offs |-> Offs(r),
             fmt |-> FFile(e, DefaultOpts), fmtc |-> FFile(e, CanonicalOpts),
             nobar |-> FFileV(e, DefaultOpts, FALSE), nobarc |-> FFileV(e, CanonicalOpts, FALSE),
             den |-> [i \in 1..Len(e) |-> Denotes2(e[i], FALSE)],
             denc |-> [i \in 1..Len(e) |-> Denotes2(e[i], TRUE)]]
    [] OTHER -> [ph |-> st.ph]
WantEmit == \/ st.ph \in {"mut", "laid"}
            \/ st.ph = "tok" /\ Len(st.sig) % EmitEvery = 0
Emit == WantEmit => PrintT(ToJson(<<"@@", Payload>>))

(* theorems of the model *)
Laid2OK ==
  st.ph = "laid" =>
    LET lay == Layouts2[st.l]
        r == Render2(st.done, lay)
    IN /\ SelectSeq(r, LAMBDA t : t.k \notin {"SP", "TAB", "nl"}) = SelectSeq(File2Toks(st.done, lay), LAMBDA t : t.k \notin {"SP", "TAB", "nl"})
       /\ \A i \in 1..(Len(r) - 1) : ~NeedSep2(r[i], r[i + 1])
       \* the canonical options ignore comments and never break a line
       /\ FFile(st.done, CanonicalOpts) = FFile([i \in 1..Len(st.done) |-> Denotes2(st.done[i], TRUE)], CanonicalOpts)
       \* formatting what the formatted text denotes gives the same text (idempotence at the level of the model)
       /\ FFile([i \in 1..Len(st.done) |-> Denotes2(st.done[i], FALSE)], DefaultOpts) = FFile(st.done, DefaultOpts)
=============================================================================
