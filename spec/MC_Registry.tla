----------------------------- MODULE MC_Registry -----------------------------
(***************************************************************************)
(* The runtime registry (generated meta/factory) as a function of the      *)
(* schema: one item per top-level instance without template / nat          *)
(* parameters — every struct (constructors of unions included, functions   *)
(* included) and, when TL2 generation is on for it, every union type —     *)
(* with its TL name, tag, function-ness, TL1/TL2 availability and          *)
(* annotations.  One TLC state per item; invariants: names unique, tags    *)
(* non-zero and unique among constructors/functions, and the boxed TL1     *)
(* encoding of the item's default value starts with its tag.               *)
(***************************************************************************)
EXTENDS TLJson

VARIABLE it

Names == {AllNames[i] : i \in 1..Len(AllNames)}
IsItem(n) == LET t == TY(n) IN
             /\ t.top /\ Len(t.np) = 0
             /\ (t.k = "struct" \/ (t.k = "union" /\ t.tl2))
Items == {n \in Names : IsItem(n)}
ItemName(n) == LET t == TY(n) IN IF t.k = "struct" THEN t.tlname ELSE n

Init == it \in Items
Next == UNCHANGED it

Expected ==
  LET t == TY(it) IN
  [inst |-> it, name |-> ItemName(it), tag |-> t.tag, fn |-> t.fn, tl1 |-> ~t.origin2, tl2 |-> t.tl2,
   annot |-> t.annot, union |-> t.k = "union",
   boxed |-> IF t.k = "struct" /\ ~t.origin2 THEN Enc1(it, <<>>, Default(it, <<>>), FALSE).b ELSE <<>>]
Emit == PrintT(ToJson(<<"@@", Expected>>))

UniqueNames == \A m \in Items : ItemName(m) = ItemName(it) => m = it
UniqueTags == TY(it).k = "struct" /\ ~TY(it).origin2 =>
                /\ TY(it).tag # <<0, 0, 0, 0>>
                /\ \A m \in Items : (TY(m).k = "struct" /\ TY(m).tag = TY(it).tag) => m = it
BoxedStartsWithTag == TY(it).k = "struct" /\ ~TY(it).origin2 => SubSeq(Expected.boxed, 1, 4) = TY(it).tag
=============================================================================
