CONSTANTS
  EmitEdges = @EDGES@
  Sanity = @SANITY@
  MaxLen = @MAXLEN@
  LongStrings = @LONGSTR@
  K = @K@
  KMut = @KMUT@
  KJson = @KJSON@
  KRe = @KRE@
  KMut2 = @KMUT2@
  KFn = @KFN@
  KBad = @KBAD@
INIT Init
NEXT Next
VIEW View
INVARIANTS Emit RoundTrip1 RoundTrip2 ValuesValid Canonical1 Reenc2Equivalent FnResultRoundTrip WriteErrorIffInvalid1
CHECK_DEADLOCK FALSE
