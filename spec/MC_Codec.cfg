CONSTANTS
  EmitEdges = @EDGES@
  Sanity = @SANITY@
  MaxLen = @MAXLEN@
  LongStrings = @LONGSTR@
  K = @K@
  KMut = @KMUT@
  KJson = @KJSON@
INIT Init
NEXT Next
VIEW View
INVARIANTS Emit RoundTrip1 RoundTrip2 ValuesValid Canonical1
CHECK_DEADLOCK FALSE
