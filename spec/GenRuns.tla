------------------------------ MODULE GenRuns ------------------------------
(***************************************************************************)
(* Runs of a generator command.  The output of a run (digest = hash of the *)
(* sorted list of produced paths and their content hashes) is a FUNCTION   *)
(* of (set of input files, option row) only: the order in which the input  *)
(* paths are listed on the command line (files, or directories containing  *)
(* them), GOMAXPROCS and the repetition index must not matter.             *)
(*                                                                         *)
(* out is a write-once map: the first run for a key (set, opts) records    *)
(* its digest, every later run with that key is a step of the spec only if *)
(* it produces the recorded digest.  (The spec contributes bookkeeping     *)
(* here; the substance is the quantifier the harness drives through it.)   *)
(***************************************************************************)
EXTENDS Integers, Sequences, FiniteSets, TLC

VARIABLES out,      \* <<set, opts>> |-> digest, write-once
          runs      \* number of runs accepted so far

Key(set, opts) == <<set, opts>>

GRInit == out = <<>> /\ runs = 0

(* one run of the generator: `order` (argument list as typed), `procs`     *)
(* (GOMAXPROCS) and `rep` are deliberately NOT part of the key             *)
Run(set, opts, order, procs, rep, digest) ==
  /\ IF Key(set, opts) \in DOMAIN out
     THEN digest = out[Key(set, opts)] /\ UNCHANGED out
     ELSE out' = [k \in DOMAIN out \cup {Key(set, opts)} |->
                    IF k = Key(set, opts) THEN digest ELSE out[k]]
  /\ runs' = runs + 1

WriteOnce == [][\A k \in DOMAIN out : k \in DOMAIN out' /\ out'[k] = out[k]]_<<out, runs>>
=============================================================================
