------------------------------ MODULE MC_Codec ------------------------------
(***************************************************************************)
(* Case space of the codecs as a state machine over (type, value) and      *)
(* (type, byte string): TLC walks the value graph of every top-level type  *)
(* of the corpus up to K modifications, applies byte-level mutations to    *)
(* the TL1 encodings, checks the format-level theorems in every state and  *)
(* prints stimulus + specified observation for the replay into the code    *)
(* generated from /repo.                                                   *)
(***************************************************************************)
EXTENDS TLJson

CONSTANTS EmitEdges, \* TRUE: every value-graph transition is printed too (histories for C09)
          K,        \* value modifications per path
          KMut,     \* byte mutations are applied to values at depth < KMut
          KJson,    \* alternative / invalid JSON spellings are derived from values at depth < KJson
          KRe,      \* non-minimal TL2 re-encodings are derived from values at depth < KRe
          KMut2,    \* byte mutations of TL2 encodings are applied to values at depth < KMut2
          KBad,     \* invalid values (wrong dynamic tuple length) are derived from values at depth < KBad
          KFn       \* function results: result values up to KFn modifications, for requests at depth < KFn + 1

VARIABLE st

Tops == {TopNames[i] : i \in 1..Len(TopNames)}
NoEnv == <<>>

Init == st \in {[kind |-> "val", tn |-> n, v |-> Default(n, NoEnv), k |-> 0] : n \in Tops}

(* a dictionary whose string key is not valid UTF-8: a JSON object cannot name such a member *)
RECURSIVE HasBadKey(_, _)
HasBadKey(tn, v) ==
  LET t == TY(tn) IN
  CASE t.k = "prim" -> FALSE
    [] t.k = "struct" -> \E i \in 1..Len(t.fields) :
                           IF IsOpt(t.fields[i]) THEN IsP(v[i]) /\ ~t.fields[i].isbit /\ HasBadKey(t.fields[i].t, PV(v[i]))
                           ELSE HasBadKey(t.fields[i].t, v[i])
    [] t.k = "union" -> HasBadKey(t.variants[v.i], v.v)
    [] t.k = "array" -> \E j \in 1..Len(v) : HasBadKey(t.elem.t, v[j])
    [] t.k = "dict" -> \E j \in 1..Len(v) : (DictKeyType(t) = "string" /\ ~UTF8Valid(v[j][1], 1)) \/ HasBadKey(t.elem.t, v[j])

Enc(tn, v) == [tl1 |-> IF TY(tn).origin2 THEN <<>> ELSE Enc1(tn, NoEnv, v, TRUE).b,
               tl1b |-> IF TY(tn).origin2 THEN <<>> ELSE Enc1(tn, NoEnv, v, FALSE).b,
               tl2 |-> IF TY(tn).tl2 THEN Enc2(tn, v, FALSE) ELSE <<>>, json |-> WJ(tn, NoEnv, v, "canon")]
StepVal == /\ st.kind = "val" /\ st.k < K
           /\ \E w \in Mods(st.tn, NoEnv, st.v) :
                /\ st' = [st EXCEPT !.v = w, !.k = @ + 1]
                /\ EmitEdges => PrintT(ToJson(<<"@@", [kind |-> "edge", tn |-> st.tn, hastl2 |-> TY(st.tn).tl2,
                                                       negzero |-> HasNegZero(st.tn, st.v) \/ HasNegZero(st.tn, w), badkey |-> HasBadKey(st.tn, st.v) \/ HasBadKey(st.tn, w),
                                                       from |-> Enc(st.tn, st.v), to |-> Enc(st.tn, w)]>>))

Muts(b) == {SubSeq(b, 1, j) : j \in 0..(Len(b) - 1)}
           \cup {[b EXCEPT ![j] = (b[j] + 1) % 256] : j \in 1..Len(b)}
           \cup {[b EXCEPT ![j] = 255 - b[j]] : j \in 1..Len(b)}
           \cup {b \o <<1, 2, 3>>}
(* Respell(b, j): byte j taken as the one-byte length header of a short string, re-spelt in the
   4-byte ("medium") form with the same content and fresh padding. Where j really is a string
   header this is the non-minimal length form every reader must refuse; elsewhere it is one more
   arbitrary input. Dec1 decides either way. *)
Respell(b, j) ==
  LET l == b[j]
      old == ((1 + l + 3) \div 4) * 4
      pad == (4 - (l % 4)) % 4
  IN SubSeq(b, 1, j - 1) \o <<254, l, 0, 0>> \o SubSeq(b, j + 1, j + l) \o [i \in 1..pad |-> 0] \o SubSeq(b, j + old, Len(b))
Respells(b) == {Respell(b, j) : j \in {i \in 1..Len(b) : b[i] <= 253 /\ i + ((1 + b[i] + 3) \div 4) * 4 - 1 <= Len(b)}}
(* long encodings (LongStrings): the re-spellings, the head and the tail only *)
MutsFor(b) == IF Len(b) <= 80 THEN Muts(b) \cup Respells(b)
              ELSE Respells(b) \cup {[b EXCEPT ![j] = (b[j] + 1) % 256] : j \in 1..8}
                   \cup {SubSeq(b, 1, Len(b) - 1), [b EXCEPT ![Len(b)] = 1], [b EXCEPT ![Len(b)] = 255 - b[Len(b)]]}
StepMut == /\ st.kind = "val" /\ st.k < KMut /\ ~TY(st.tn).origin2
           /\ \E boxed \in BOOLEAN :
                LET e == Enc1(st.tn, NoEnv, st.v, ~boxed) IN
                /\ e.ok
                /\ \E m \in MutsFor(e.b) : st' = [kind |-> "bytes", tn |-> st.tn, boxed |-> boxed, b |-> m, k |-> 0]

StepJson == /\ st.kind = "val" /\ st.k < KJson
            /\ \E m \in Modes \cup BadModes :
                 /\ WJ(st.tn, NoEnv, st.v, m) # WJ(st.tn, NoEnv, st.v, "canon")
                 /\ st' = [kind |-> "json", tn |-> st.tn, v |-> st.v, m |-> m, k |-> 0]

StepRe == /\ st.kind = "val" /\ st.k < KRe /\ TY(st.tn).tl2
          /\ \/ \E m \in ReModes :
                  /\ Enc2M(st.tn, st.v, FALSE, m) # Enc2(st.tn, st.v, FALSE)
                  /\ st' = [kind |-> "reenc", tn |-> st.tn, v |-> st.v, m |-> m, k |-> 0]
             \/ (~TY(st.tn).alias /\ st' = [kind |-> "reenc", tn |-> st.tn, v |-> st.v, m |-> "oversize", k |-> 0])

(* Over(b, j, w): the bytes of b with w written over positions j..j+Len(w)-1; every enclosing
   byte size stays what it was, so an inflated count (3-byte form: 65789, 9-byte form: 2^20)
   lands inside an otherwise well-formed tiny object *)
Over(b, j, w) == [i \in 1..Len(b) |-> IF i >= j /\ i < j + Len(w) THEN w[i - j + 1] ELSE b[i]]
Muts2(b) == Muts(b) \cup {[b EXCEPT ![j] = 255] : j \in 1..Len(b)} \cup {[b EXCEPT ![j] = 254] : j \in 1..Len(b)}
            \cup {Over(b, j, <<254, 255, 255>>) : j \in 1..(Len(b) - 2)}
            \cup {Over(b, j, <<255, 0, 0, 16, 0, 0, 0, 0, 0>>) : j \in 1..(Len(b) - 8)}
StepMut2 == /\ st.kind = "val" /\ st.k < KMut2 /\ TY(st.tn).tl2
            /\ \E m \in Muts2(Enc2(st.tn, st.v, FALSE)) \cup {Enc2M(st.tn, st.v, FALSE, cm) : cm \in CountModes} : st' = [kind |-> "bytes2", tn |-> st.tn, b |-> m, k |-> 0]

(* function results: the result type is instantiated with the nat fields of the request *)
ResEnv(tn, q) == ArgsVal(TY(tn).resNa, NoEnv, TY(tn), q)
\* functions declared in TL2 have no TL1 request or result: their argument structs are covered as
\* values (C03, C05); the result transcoders modelled here are those of TL1-declared functions
StepFn == /\ st.kind = "val" /\ TY(st.tn).fn /\ ~TY(st.tn).origin2 /\ KFn > 0 /\ st.k <= KFn
          /\ st' = [kind |-> "fn", tn |-> st.tn, q |-> st.v, r |-> Default(TY(st.tn).res, ResEnv(st.tn, st.v)), k |-> 0]
StepFnMod == /\ st.kind = "fn" /\ st.k < KFn
             /\ \E w \in Mods(TY(st.tn).res, ResEnv(st.tn, st.q), st.r) : st' = [st EXCEPT !.r = w, !.k = @ + 1]

(* a value whose array length disagrees with its size parameter: writers must refuse it *)
StepBad == /\ st.kind = "val" /\ st.k < KBad /\ TY(st.tn).tl2 /\ ~TY(st.tn).origin2
           /\ \E w \in BadMods(st.tn, NoEnv, st.v) : st' = [kind |-> "bad", tn |-> st.tn, v |-> w, k |-> 0]

Next == StepVal \/ StepMut \/ StepJson \/ StepRe \/ StepMut2 \/ StepFn \/ StepFnMod \/ StepBad

View == [st EXCEPT !.k = 0]

---------------------------------------------------------------------------
Bytes(r) == IF r.ok THEN r.b ELSE <<>>
DecOut(tn, b, boxed) ==
  LET r == Dec1(tn, NoEnv, b, 1, ~boxed) IN
  IF ~r.ok THEN [ok |-> FALSE, unk |-> r.unk, big |-> r.big, consumed |-> 0, re |-> <<>>]
  ELSE [ok |-> TRUE, unk |-> FALSE, big |-> FALSE, consumed |-> r.pos - 1, re |-> Bytes(Enc1(tn, NoEnv, r.v, ~boxed))]

(* "oversize": the minimal encoding with its outermost declared size increased by one *)
ReBytes ==
  IF st.m # "oversize" THEN Enc2M(st.tn, st.v, FALSE, st.m)
  ELSE LET e == Enc2(st.tn, st.v, FALSE) IN
       IF e[1] < 253 THEN <<e[1] + 1>> \o SubSeq(e, 2, Len(e)) ELSE <<254, 255, 255>> \o SubSeq(e, 2, Len(e))
Payload ==
  IF st.kind = "val"
  THEN [kind |-> "val", tn |-> st.tn, k |-> st.k, origin2 |-> TY(st.tn).origin2,
        tl1ok |-> TY(st.tn).origin2 \/ Enc1(st.tn, NoEnv, st.v, TRUE).ok,
        tl1 |-> IF TY(st.tn).origin2 THEN <<>> ELSE Bytes(Enc1(st.tn, NoEnv, st.v, TRUE)),
        tl1b |-> IF TY(st.tn).origin2 THEN <<>> ELSE Bytes(Enc1(st.tn, NoEnv, st.v, FALSE)),
        small |-> ~TY(st.tn).origin2 /\ SmallElems(st.tn, NoEnv, st.v),
        negzero |-> HasNegZero(st.tn, st.v), badkey |-> HasBadKey(st.tn, st.v),
        tl2opt |-> HasTL2OnlyOpt(st.tn, st.v),
        hastl2 |-> TY(st.tn).tl2,
        tl2 |-> IF TY(st.tn).tl2 THEN Enc2(st.tn, st.v, FALSE) ELSE <<>>,
        json |-> WJ(st.tn, NoEnv, st.v, "canon")]
  ELSE IF st.kind = "bad"
  THEN [kind |-> "bad", tn |-> st.tn, tl2 |-> Enc2(st.tn, st.v, FALSE),
        writable |-> Enc1(st.tn, NoEnv, st.v, TRUE).ok]
  ELSE IF st.kind = "fn"
  THEN LET t == TY(st.tn)  renv == ResEnv(st.tn, st.q)
           e2 == Enc2(t.res, st.r, TRUE) IN
       [kind |-> "fn", tn |-> st.tn, hastl2 |-> t.tl2, negzero |-> HasNegZero(t.res, st.r), badkey |-> HasBadKey(t.res, st.r),
        small |-> SmallElems(t.res, renv, st.r),
        req |-> Bytes(Enc1(st.tn, NoEnv, st.q, FALSE)),
        res1 |-> Bytes(Enc1(t.res, renv, st.r, t.resBare)),
        res2 |-> IF ~t.tl2 THEN <<>>
                 ELSE IF t.resAlias THEN Enc2(t.res, st.r, FALSE)
                 ELSE Sized2(Body2(<<[present |-> e2 # <<>>, b |-> e2]>>, 0), FALSE),
        resj |-> WJ(t.res, renv, st.r, "canon")]
  ELSE IF st.kind = "bytes2"
  THEN LET r == Dec2(st.tn, st.b, 1, Len(st.b)) IN
       [kind |-> "bytes2", tn |-> st.tn, b |-> st.b, origin2 |-> TY(st.tn).origin2,
        dec2ok |-> r.ok,
        dec2consumed |-> IF r.ok THEN r.pos - 1 ELSE 0,
        negzero |-> r.ok /\ HasNegZero(st.tn, r.v),
        \* a TL1-declared type read from arbitrary TL2 bytes may hold what no TL1 value holds (an array
        \* whose length disagrees with its size parameter, a masked field without its mask bit): how
        \* writers treat such content is not specified, so only verdict and consumption are compared
        dec2valid |-> r.ok /\ (TY(st.tn).origin2 \/ Valid1(st.tn, NoEnv, r.v)),
        \* the decoded value is compared through TL1 for TL1-declared types (their hidden TL2 presence
        \* bits are object state, not value: an empty object and an object with explicit empty fields
        \* are the same value) and through TL2 for TL2-declared ones
        dec2tl1 |-> IF r.ok /\ ~TY(st.tn).origin2 /\ Valid1(st.tn, NoEnv, r.v) THEN Bytes(Enc1(st.tn, NoEnv, r.v, TRUE)) ELSE <<>>,
        dec2re |-> IF r.ok THEN Enc2(st.tn, r.v, FALSE) ELSE <<>>]
  ELSE IF st.kind = "reenc"
  THEN [kind |-> "reenc", tn |-> st.tn, m |-> st.m, origin2 |-> TY(st.tn).origin2, negzero |-> HasNegZero(st.tn, st.v), badkey |-> HasBadKey(st.tn, st.v),
        b |-> ReBytes, accept |-> st.m # "oversize",
        tl2 |-> Enc2(st.tn, st.v, FALSE),
        tl1 |-> IF TY(st.tn).origin2 THEN <<>> ELSE Bytes(Enc1(st.tn, NoEnv, st.v, TRUE))]
  ELSE IF st.kind = "json"
  THEN [kind |-> "json", tn |-> st.tn, m |-> st.m, bad |-> st.m \in BadModes, negzero |-> HasNegZero(st.tn, st.v), badkey |-> HasBadKey(st.tn, st.v),
        alt |-> WJ(st.tn, NoEnv, st.v, st.m),
        json |-> WJ(st.tn, NoEnv, st.v, "canon"),
        tl1 |-> IF TY(st.tn).origin2 THEN <<>> ELSE Bytes(Enc1(st.tn, NoEnv, st.v, TRUE)),
        origin2 |-> TY(st.tn).origin2,
        hastl2 |-> TY(st.tn).tl2,
        tl2 |-> IF TY(st.tn).tl2 THEN Enc2(st.tn, st.v, FALSE) ELSE <<>>]
  ELSE [kind |-> "bytes", tn |-> st.tn, boxed |-> st.boxed, b |-> st.b, dec |-> DecOut(st.tn, st.b, st.boxed)]
Emit == PrintT(ToJson(<<"@@", Payload>>))

(* ---- format-level theorems ---- *)
RoundTrip1 ==
  st.kind = "val" /\ ~TY(st.tn).origin2 =>
    \A bare \in BOOLEAN :
      LET e == Enc1(st.tn, NoEnv, st.v, bare) IN
      /\ e.ok
      /\ LET d == Dec1(st.tn, NoEnv, e.b, 1, bare) IN d.ok /\ d.v = st.v /\ d.pos = Len(e.b) + 1
RoundTrip2 ==
  st.kind = "val" /\ TY(st.tn).tl2 =>
    LET e == Enc2(st.tn, st.v, FALSE)
        d == Dec2(st.tn, e, 1, Len(e))
    IN d.ok /\ d.v = st.v /\ d.pos = Len(e) + 1
(* every admissible re-encoding decodes to the same value; an oversized object is refused *)
Reenc2Equivalent ==
  st.kind = "reenc" =>
    LET b == ReBytes  d == Dec2(st.tn, b, 1, Len(b)) IN
    IF st.m = "oversize" THEN ~d.ok \/ TY(st.tn).alias
    ELSE d.ok /\ d.v = st.v /\ d.pos = Len(b) + 1
(* result encodings decode back under the request's parameters *)
FnResultRoundTrip ==
  st.kind = "fn" /\ ~TY(st.tn).origin2 =>
    LET t == TY(st.tn)  renv == ResEnv(st.tn, st.q)
        e == Enc1(t.res, renv, st.r, t.resBare) IN
    e.ok /\ LET d == Dec1(t.res, renv, e.b, 1, t.resBare) IN d.ok /\ d.v = st.r /\ d.pos = Len(e.b) + 1
(* a value is TL1-writable iff its array lengths agree with their size parameters *)
WriteErrorIffInvalid1 ==
  st.kind = "bad" => /\ ~Valid1(st.tn, NoEnv, st.v)
                     /\ ~Enc1(st.tn, NoEnv, st.v, TRUE).ok /\ ~Enc1(st.tn, NoEnv, st.v, FALSE).ok
ValuesValid == st.kind = "val" /\ ~TY(st.tn).origin2 => Valid1(st.tn, NoEnv, st.v)
(* whatever is accepted re-encodes, and the re-encoding decodes to the same value *)
Canonical1 ==
  st.kind = "bytes" =>
    LET r == Dec1(st.tn, NoEnv, st.b, 1, ~st.boxed) IN
    r.ok => LET e == Enc1(st.tn, NoEnv, r.v, ~st.boxed) IN
            /\ e.ok
            /\ Len(e.b) <= r.pos - 1
            /\ Dec1(st.tn, NoEnv, e.b, 1, ~st.boxed).v = r.v
=============================================================================
