----------------------------- MODULE MC_GenRuns -----------------------------
(***************************************************************************)
(* Model-level check of GenRuns: whatever digests a (nondeterministic)     *)
(* implementation offers, the behaviours admitted by the spec are exactly  *)
(* those in which all runs with one key agree; hist is a history variable. *)
(***************************************************************************)
EXTENDS GenRuns

CONSTANTS Sets, OptRows, Orders, ProcsSet, Reps, Digests, MaxRuns

VARIABLE hist      \* set of [set, opts, order, procs, rep, digest] accepted so far

Init == GRInit /\ hist = {}

Next == /\ runs < MaxRuns
        /\ \E s \in Sets, o \in OptRows, ord \in Orders, p \in ProcsSet, r \in Reps, d \in Digests :
             /\ Run(s, o, ord, p, r, d)
             /\ hist' = hist \cup {[set |-> s, opts |-> o, order |-> ord, procs |-> p, rep |-> r, digest |-> d]}

Functional == \A a, b \in hist : (a.set = b.set /\ a.opts = b.opts) => a.digest = b.digest
OutIsHist  == \A a \in hist : Key(a.set, a.opts) \in DOMAIN out /\ out[Key(a.set, a.opts)] = a.digest
=============================================================================
