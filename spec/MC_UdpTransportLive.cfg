CONSTANTS
  NT = @NT@
  MemLimit = @MEM@
  MaxWin = 64
  MaxMsgs = @MSGS@
  MaxFaults = @FAULTS@
  MaxNet = @NET@
  MaxHdr = @HDR@
  MaxBurst = @BURST@
  MaxAckSet = 50
  MaxChunks = @CHUNKS@
  Sched = TRUE
  Patient = @PATIENT@
  ChunkCounts <- MCChunkCounts
SPECIFICATION @SPEC@
INVARIANTS Core
PROPERTIES Liveness Delivery
CHECK_DEADLOCK FALSE
