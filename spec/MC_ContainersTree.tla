-------------------------- MODULE MC_ContainersTree --------------------------
(***************************************************************************)
(* Exhaustive state graph of the TreeMap part of Containers: every tree    *)
(* shape (with stored heights and values) reachable by Set/Delete over     *)
(* Keys x Vals.  The state graph is dumped (-dump dot,actionlabels); the   *)
(* node label carries t, a nested tuple <<k, v, h, left, right>> that the  *)
(* harness reads as JSON.  Emit prints once per distinct state what the    *)
(* real tree must show in that state: the results of all read-only calls,  *)
(* the balance measures and, for each mutating call, the repairBalance     *)
(* cases it will take from here (coverage accounting).                     *)
(***************************************************************************)
EXTENDS Containers, Json

CONSTANT VKeys     \* keys that take every value of Vals; the other keys only take value 1
                   \* (values do not influence shapes: this keeps the graph small)

ASSUME Keys = 1..Cardinality(Keys) /\ VKeys \subseteq Keys /\ 1 \in Vals
NK == Cardinality(Keys)

NonNone(s) == SelectSeq(s, LAMBDA c : c # "none")

TreeObs(tt) ==
  [shape |-> tt,
   get   |-> [k \in 1..NK |-> CGet(tt, k)],
   front |-> CFront(tt), back |-> CBack(tt),
   empty |-> CEmpty(tt), lm1 |-> CLenMoreThan1(tt),
   size  |-> Size(tt), th |-> TrueH(tt), imb |-> MaxImbalance(tt),
   ins   |-> [k \in 1..NK |-> NonNone(InsertCases(tt, k, 1))],
   rem   |-> [k \in 1..NK |-> LET c == RemoveCases(tt, k) IN <<NonNone(c.rem), NonNone(c.ext)>>]]

Emit == PrintT(ToJson(<<"@@", TreeObs(t)>>))

Init == TreeInit /\ SliceInit

Allowed(k, v) == v = 1 \/ k \in VKeys

Set(k, v) == Allowed(k, v) /\ TSet(k, v) /\ UNCHANGED sliceVars
Delete(k) == TDelete(k) /\ UNCHANGED sliceVars
Update(k, v) == Allowed(k, v) /\ TUpdate(k, v) /\ UNCHANGED sliceVars        \* *GetPtr(k) = v when present

Next == \/ \E k \in Keys, v \in Vals : Set(k, v)
        \/ \E k \in Keys : Delete(k)
        \/ \E k \in Keys, v \in Vals : Update(k, v)
=============================================================================
