CONSTANTS
  MaxSteps = @MAXSTEPS@
INIT Init
NEXT Next
INVARIANTS TypeOK ExactAfterGenerate OutsideOnlyRuntimeLib
PROPERTIES UnchangedNotRewritten ChangedRewritten RefusalChangesNothing RefusedIffUnmarked OutsideStep
CHECK_DEADLOCK FALSE
