CONSTANTS
  MaxBit = @MAXBIT@
  MaxEdits = @MAXEDITS@
  Mode = "@MODE@"
  EvalWC = @EVALWC@
  Strict = @STRICT@
INIT Init
NEXT Next
INVARIANT Report
CHECK_DEADLOCK FALSE
