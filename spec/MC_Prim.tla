------------------------------ MODULE MC_Prim ------------------------------
(***************************************************************************)
(* Case space of the primitive codecs as a state machine: initial states   *)
(* are valid encodings (one per length / value), Next applies one          *)
(* mutation (truncate, non-minimal length form, corrupt padding, append    *)
(* garbage).  Design-level invariants are checked in every state and       *)
(* Emit prints the stimulus together with the specified outcome; the       *)
(* harness replays each of them into pkg/basictl.                          *)
(***************************************************************************)
EXTENDS Prim

CONSTANTS Lens,        \* string lengths (ints)
          Fills,       \* body fill bytes
          SizeVals,    \* TL2 size values
          MaxBits      \* bit vectors of length 0..MaxBits (exhaustive)

VARIABLE tc

Min(a, b) == IF a < b THEN a ELSE b
Max(a, b) == IF a > b THEN a ELSE b
Trunc(s, k) ==
  Stream(SubSeq(s.hdr, 1, Min(k, Len(s.hdr))),
         Max(0, Min(s.n, k - Len(s.hdr))), s.fill,
         SubSeq(s.tail, 1, Max(0, Min(Len(s.tail), k - Len(s.hdr) - s.n))))

(* cut points: all of them for short streams, boundary classes otherwise *)
Cuts(s) == LET t == SLen(s) h == Len(s.hdr) IN
  IF t <= 24 THEN 0..(t - 1)
  ELSE {k \in {0, 1, 2, 3, h - 1, h, h + 1, h + s.n - 1, h + s.n, t - 3, t - 2, t - 1} : k >= 0 /\ k < t}

Medium1(l) == <<254, l % 256, (l \div 256) % 256, (l \div 65536) % 256>>
Huge1(l) == <<255, l % 256, (l \div 256) % 256, (l \div 65536) % 256, (l \div 16777216) % 256, 0, 0, 0>>

BigLens == { <<0, 0, 0, 128, 0, 0, 0>>, <<0, 0, 0, 0, 1, 0, 0>>, <<1, 0, 0, 0, 0, 0, 1>>,
             <<255, 255, 255, 255, 255, 255, 255>>, <<253, 255, 255, 255, 255, 255, 127>> }

BitSeqs(n) == [1..n -> BOOLEAN]

Base ==
     { [op |-> "s1", l |-> l, s |-> Enc1Str(l, f), mut |-> "none"] : l \in Lens, f \in Fills }
  \cup { [op |-> "s2", l |-> l, s |-> Enc2Str(l, f), mut |-> "none"] : l \in Lens, f \in Fills }
  \cup { [op |-> "z2", l |-> l, s |-> Concrete(Size2(l)), mut |-> "none"] : l \in SizeVals }
  \cup { [op |-> "h1big", lb |-> lb, s |-> Concrete(Hdr1Big(lb)), mut |-> "none"] : lb \in BigLens }
  \cup { [op |-> "bits", bits |-> b, s |-> Concrete(BitsEnc(b)), mut |-> "none"] : b \in UNION {BitSeqs(n) : n \in 0..MaxBits} }
  \cup { [op |-> "fixed", k |-> k, s |-> Concrete([i \in 1..m |-> (37 * i + m) % 256]), mut |-> "none"] : k \in {1, 4, 8}, m \in 0..9 }
  \cup { [op |-> "bool", s |-> Concrete(t), mut |-> "none"] :
           t \in {<<1, 2, 3, 4>>, <<5, 6, 7, 8>>, <<1, 2, 3, 5>>, <<0, 0, 0, 0>>, <<1, 2, 3>>, <<>>, <<5, 6, 7, 8, 9>>} }

Init == tc \in Base

MutTrunc == /\ tc.op \in {"s1", "s2", "z2"} /\ tc.mut \in {"none", "nonmin"}
            /\ \E k \in Cuts(tc.s) : tc' = [tc EXCEPT !.s = Trunc(tc.s, k), !.mut = IF tc.mut = "none" THEN "trunc" ELSE "nonmintrunc"]
MutNonMin1 == /\ tc.op = "s1" /\ tc.mut = "none"
              /\ \/ /\ tc.l <= TinyMax
                    /\ tc' = [tc EXCEPT !.s = Stream(Medium1(tc.l), tc.l, tc.s.fill, Zeros(PadLen(tc.l))), !.mut = "nonmin"]
                 \/ /\ tc.l <= MediumMax
                    /\ tc' = [tc EXCEPT !.s = Stream(Huge1(tc.l), tc.l, tc.s.fill, Zeros(PadLen(tc.l))), !.mut = "nonmin"]
MutNonMin2 == /\ tc.op \in {"z2", "s2"} /\ tc.mut = "none"
              /\ \E f \in Size2Forms(tc.l) \ {Size2(tc.l)} :
                    tc' = [tc EXCEPT !.s = [tc.s EXCEPT !.hdr = f], !.mut = "nonmin"]
MutPad == /\ tc.op = "s1" /\ tc.mut = "none"
          /\ \E i \in 1..Len(tc.s.tail), b \in {1, 255} :
                tc' = [tc EXCEPT !.s = [tc.s EXCEPT !.tail = [tc.s.tail EXCEPT ![i] = b]], !.mut = "pad"]
MutAppend == /\ tc.op \in {"s1", "s2", "z2"} /\ tc.mut = "none"
             /\ tc' = [tc EXCEPT !.s = [tc.s EXCEPT !.tail = tc.s.tail \o <<7, 0, 9>>], !.mut = "append"]

Next == MutTrunc \/ MutNonMin1 \/ MutNonMin2 \/ MutPad \/ MutAppend

---------------------------------------------------------------------------
(* expected outcome of reading tc.s with the reader that belongs to tc.op *)
Expect ==
  CASE tc.op = "s1"    -> Dec1Str(tc.s)
    [] tc.op = "s2"    -> Dec2Str(tc.s)
    [] tc.op = "z2"    -> ParseSize2(tc.s)
    [] tc.op = "h1big" -> [hdr |-> Hdr1Big(tc.lb), pad |-> PadLen(tc.lb[1]), rd |-> Dec1Str(tc.s)]
    [] tc.op = "bits"  -> [bytes |-> BitsEnc(tc.bits), back |-> BitsDec(BitsEnc(tc.bits), Len(tc.bits))]
    [] tc.op = "fixed" -> FixedRead(tc.s, tc.k)
    [] tc.op = "bool"  -> ReadBool(tc.s, <<1, 2, 3, 4>>, <<5, 6, 7, 8>>)

Emit == PrintT(ToJson(<<"@@", [tc |-> tc, exp |-> Expect]>>))

(* ---- design-level properties of the formats ---- *)
RoundTrip ==
  tc.mut = "none" /\ tc.op \in {"s1", "s2"} =>
     LET r == Expect IN r.ok /\ r.len = tc.l /\ r.consumed = SLen(tc.s)
AppendIgnored ==
  tc.mut = "append" /\ tc.op \in {"s1", "s2"} =>
     LET r == Expect IN r.ok /\ r.len = tc.l /\ r.consumed = SLen(tc.s) - 3
TruncIsEOF ==       \* the encodings are prefix-free: a strict prefix is never accepted
  tc.mut = "trunc" => ~Expect.ok /\ Expect.err = "eof"
NonMinTL1Rejected ==
  tc.op = "s1" /\ tc.mut = "nonmin" => ~Expect.ok /\ Expect.err = "noncanon"
NonMinTL2Accepted ==
  tc.op \in {"z2", "s2"} /\ tc.mut = "nonmin" =>
     Expect.ok /\ (IF tc.op = "z2" THEN Expect.val ELSE Expect.len) = tc.l
PadRejected == tc.mut = "pad" => ~Expect.ok /\ Expect.err = "pad"
SizeRoundTrip ==
  tc.op = "z2" /\ tc.mut = "none" => Expect.ok /\ Expect.val = tc.l /\ Expect.consumed = Size2Len(tc.l) /\ Len(Size2(tc.l)) = Size2Len(tc.l)
BitsRoundTrip == tc.op = "bits" => Expect.back = tc.bits /\ Len(Expect.bytes) = (Len(tc.bits) + 7) \div 8
Aligned1 == tc.op = "s1" /\ tc.mut = "none" => SLen(tc.s) % 4 = 0
=============================================================================
