---------------------------- MODULE MC_TLSyntax ----------------------------
(***************************************************************************)
(* Case space of the TL1 lexer and parser input space as a state machine.  *)
(*   Mode "lex" : states are character-class strings (Append one char).    *)
(*   Mode "tok" : states are token strings over the token alphabet         *)
(*                (exhaustive BFS, or -simulate for token soups).          *)
(* Emit prints every test case with its specified outcome.                 *)
(* (Derivations of valid schemas: MC_TLDerive.)                            *)
(***************************************************************************)
EXTENDS TLSyntax

CONSTANTS Mode,        \* "lex" | "tok"
          Lang,        \* 1 | 2 : language of the lexer in mode "lex"
          MaxChars,    \* mode lex: strings up to this length ...
          FullChars,   \* ... the first FullChars positions range over Chars, the rest over Chars2
          Chars, Chars2,
          MaxToks,     \* mode tok: token strings up to this length
          TokSel,      \* mode tok: "full" = the whole alphabet, "core" = one lexeme per token kind
          PruneToks,   \* mode tok: TRUE = no two equal adjacent punctuation tokens, at most one bad lexeme
          EmitEvery    \* mode tok: emit strings whose length is a multiple of this (1 = all)

VARIABLE st

LowerNamesMC == {"a", "x1"}
Alphabet == IF TokSel = "core" THEN Core1 ELSE Alphabet1

Init == CASE Mode = "lex" -> st = [ph |-> "lex", cs |-> <<>>]
          [] Mode = "tok" -> st = [ph |-> "tok", sig |-> <<>>]

AppendChar == /\ st.ph = "lex" /\ Len(st.cs) < MaxChars
              /\ \E c \in (IF Len(st.cs) < FullChars THEN Chars ELSE Chars2) : st' = [st EXCEPT !.cs = Append(@, c)]

AppendTok == /\ st.ph = "tok" /\ Len(st.sig) < MaxToks
             /\ \E t \in Alphabet :
                  /\ PruneToks => /\ ~(Len(st.sig) > 0 /\ t \in Punct1Toks /\ st.sig[Len(st.sig)] = t)
                                  /\ ~(BadLen(t) > 0 /\ \E i \in 1..Len(st.sig) : BadLen(st.sig[i]) > 0)
                  /\ st' = [st EXCEPT !.sig = Append(@, t)]

Next == AppendChar \/ AppendTok

TokPairs(toks) == [i \in 1..Len(toks) |-> <<toks[i].k, toks[i].s>>]
LexView(r) == [toks |-> [i \in 1..Len(r.toks) |-> <<r.toks[i].k, r.toks[i].b, r.toks[i].e, r.toks[i].l, r.toks[i].c>>],
               err |-> [i \in 1..Len(r.err) |-> <<r.err[i].b, r.err[i].e, r.err[i].l, r.err[i].c>>], class |-> r.class]

(* Emit and the recombination theorem share one evaluation of the lexer *)
EmitLex == st.ph = "lex" =>
             LET r == Lex(st.cs, Lang) IN
             /\ LexRecombines(st.cs, r)
             /\ PrintT(ToJson(<<"@@", [ph |-> "lex", cs |-> st.cs, lang |-> Lang, lex |-> LexView(r)]>>))
EmitTok == (st.ph = "tok" /\ Len(st.sig) % EmitEvery = 0) =>
             PrintT(ToJson(<<"@@", [ph |-> "tok", toks |-> TokPairs(Spaced(st.sig)), exp |-> ExpectSpaced(st.sig, 1)]>>))
=============================================================================
