----------------------------- MODULE TL2Format -----------------------------
(***************************************************************************)
(* The TL2 wire format over the instance graph (docs/TL2Primer):           *)
(*  - object = varlen size of the body, then the body; an empty body means *)
(*    the default value; the body starts with a presence byte, one more    *)
(*    before every further 8 fields; bit 0 of the first byte = "variant    *)
(*    index follows" (varlen), bit (i mod 8) of byte (i div 8) = field i   *)
(*    (fields numbered from 1) is serialised;                              *)
(*  - a required field holding its default value is omitted, an optional   *)
(*    field is serialised iff it is set (even when it holds the default);  *)
(*    trailing presence bytes that announce nothing are not written;       *)
(*  - arrays = size, element count (varlen), elements (never omitted);     *)
(*    arrays of bit pack 8 per byte; dictionaries = arrays of key/value    *)
(*    objects; bool = one byte; aliases / typedefs are transparent.        *)
(* Enc2 is the writer's (minimal) layout.  Dec2 is the TOLERANT reader:    *)
(* any size spelling, unknown tail of a body skipped, missing tail = empty  *)
(* fields, absent presence byte = 0.                                       *)
(***************************************************************************)
EXTENDS TLValues

ZeroEnv(tn) == [j \in 1..Len(TY(tn).np) |-> Z4]
Default2(tn) == Default(tn, ZeroEnv(tn))

IsZeroBytes(b) == \A j \in 1..Len(b) : b[j] = 0
IsBitElem(tn) == LET t == TY(tn) IN t.k = "prim" /\ t.prim = "bit"
Omitted(f) == f.omit                              \* removed field (name starts with _): never written

RECURSIVE Enc2(_, _, _)
RECURSIVE Pieces2(_, _, _, _)
RECURSIVE ElemBytes2(_, _, _)

(* struct body from the per-field pieces [present, b] *)
Body2(pieces, uidx) ==
  LET n == Len(pieces)
      present == {i \in 1..n : pieces[i].present}
      last == IF present = {} THEN 0 ELSE CHOOSE i \in present : \A j \in present : j <= i
      MaskByte(g) ==
        LET RECURSIVE S(_)
            S(bit) == IF bit > 7 THEN 0
                      ELSE (IF (g = 0 /\ bit = 0) THEN (IF uidx > 0 THEN 1 ELSE 0)
                            ELSE IF 8 * g + bit <= n /\ pieces[8 * g + bit].present THEN Pow2(bit) ELSE 0)
                           + S(bit + 1)
        IN S(0)
      RECURSIVE FieldsOf(_, _)
      FieldsOf(g, i) == IF i > 8 * g + 7 \/ i > n THEN <<>>
                        ELSE (IF i >= 1 /\ pieces[i].present THEN pieces[i].b ELSE <<>>) \o FieldsOf(g, i + 1)
      RECURSIVE Blocks(_)
      Blocks(g) == IF g > last \div 8 THEN <<>>
                   ELSE <<MaskByte(g)>> \o (IF g = 0 /\ uidx > 0 THEN Size2(uidx) ELSE <<>>)
                        \o FieldsOf(g, 8 * g) \o Blocks(g + 1)
  IN IF last = 0 /\ uidx = 0 THEN <<>> ELSE Blocks(0)

Sized2(body, opt) == IF body = <<>> THEN (IF opt THEN <<>> ELSE <<0>>) ELSE Size2(Len(body)) \o body

Pieces2(t, v, i, acc) ==
  IF i > Len(t.fields) THEN acc
  ELSE LET f == t.fields[i]
           piece == IF Omitted(f) THEN [present |-> FALSE, b |-> <<>>]
                    ELSE IF IsOpt(f) THEN
                           (IF IsP(v[i]) THEN [present |-> TRUE, b |-> IF f.isbit THEN <<>> ELSE Enc2(f.t, PV(v[i]), FALSE)]
                            ELSE [present |-> FALSE, b |-> <<>>])
                    ELSE LET e == Enc2(f.t, v[i], TRUE) IN [present |-> e # <<>>, b |-> e]
       IN Pieces2(t, v, i + 1, Append(acc, piece))

ElemBytes2(t, v, j) == IF j > Len(v) THEN <<>> ELSE Enc2(t.elem.t, v[j], FALSE) \o ElemBytes2(t, v, j + 1)

Enc2(tn, v, opt) ==
  LET t == TY(tn) IN
  CASE t.k = "prim" ->
         (CASE t.prim = "string" -> IF opt /\ v = <<>> THEN <<>> ELSE Size2(Len(v)) \o v
            [] t.prim = "bool"   -> IF opt /\ ~v THEN <<>> ELSE <<IF v THEN 1 ELSE 0>>
            [] t.prim = "bit"    -> <<>>
            [] OTHER             -> IF opt /\ IsZeroBytes(v) THEN <<>> ELSE v)
    [] t.k = "struct" ->
         IF t.alias /\ ~t.unionElem THEN Enc2(t.fields[1].t, v[1], opt)
         ELSE Sized2(Body2(Pieces2(t, v, 1, <<>>), IF t.unionElem THEN t.uidx ELSE 0), opt)
    [] t.k = "union"  ->
         LET vt == TY(t.variants[v.i]) IN Sized2(Body2(Pieces2(vt, v.v, 1, <<>>), v.i - 1), opt)
    [] t.k \in {"array", "dict"} ->
         IF Len(v) = 0 THEN (IF opt THEN <<>> ELSE <<0>>)
         ELSE LET body == Size2(Len(v)) \o
                          (IF IsBitElem(t.elem.t) THEN BitsEnc(v) ELSE ElemBytes2(t, v, 1))
              IN Size2(Len(body)) \o body

---------------------------------------------------------------------------
(* Admissible NON-MINIMAL encodings of the same value (what other writers / newer   *)
(* schema versions may produce); every reader must decode them to the same value:   *)
(*   "huge"     every size and count in the 9-byte form                              *)
(*   "explicit" required fields written even when they hold the default value        *)
(*   "padmask"  presence bytes for all fields written although they announce nothing *)
(*              (an empty object as size 1 + zero mask)                              *)
(*   "tail"     unknown bytes appended to every object / array body (fields added    *)
(*              by a newer schema version whose presence bits this reader ignores)   *)
ReModes == {"huge", "explicit", "padmask", "tail"}
Huge2(l) == <<255, l % 256, (l \div 256) % 256, (l \div 65536) % 256, (l \div 16777216) % 256, 0, 0, 0, 0>>
SizeM(l, m) == IF m = "huge" THEN Huge2(l) ELSE Size2(l)
Junk == <<7, 0, 9>>
(* not re-encodings but hostile inputs (C08): every element count is replaced by a large one
   (3-byte form: 65789 elements, 9-byte form: 2^20) while all byte sizes stay consistent with
   the bytes actually present, so only the count-versus-remaining-bytes rule can refuse it *)
CountModes == {"count3", "count9"}
CountM(l, m) == CASE m = "count3" -> <<254, 255, 255>>
                  [] m = "count9" -> <<255, 0, 0, 16, 0, 0, 0, 0, 0>>
                  [] OTHER -> SizeM(l, m)

RECURSIVE Enc2M(_, _, _, _)
RECURSIVE Pieces2M(_, _, _, _, _)
RECURSIVE ElemBytes2M(_, _, _, _)

Body2M(pieces, uidx, m) ==
  LET n == Len(pieces)
      present == {i \in 1..n : pieces[i].present}
      lastP == IF present = {} THEN 0 ELSE CHOOSE i \in present : \A j \in present : j <= i
      last == IF m = "padmask" THEN n ELSE lastP
      MaskByte(g) ==
        LET RECURSIVE S(_)
            S(bit) == IF bit > 7 THEN 0
                      ELSE (IF (g = 0 /\ bit = 0) THEN (IF uidx > 0 THEN 1 ELSE 0)
                            ELSE IF 8 * g + bit <= n /\ pieces[8 * g + bit].present THEN Pow2(bit) ELSE 0)
                           + S(bit + 1)
        IN S(0)
      RECURSIVE FieldsOf(_, _)
      FieldsOf(g, i) == IF i > 8 * g + 7 \/ i > n THEN <<>>
                        ELSE (IF i >= 1 /\ pieces[i].present THEN pieces[i].b ELSE <<>>) \o FieldsOf(g, i + 1)
      RECURSIVE Blocks(_)
      Blocks(g) == IF g > last \div 8 THEN <<>>
                   ELSE <<MaskByte(g)>> \o (IF g = 0 /\ uidx > 0 THEN SizeM(uidx, m) ELSE <<>>)
                        \o FieldsOf(g, 8 * g) \o Blocks(g + 1)
      core == IF last = 0 /\ uidx = 0 /\ m \notin {"padmask", "tail"} THEN <<>> ELSE Blocks(0)
      \* appended unknown bytes must not be mistaken for a presence byte of known fields:
      \* they may only follow a body that already holds the presence bytes of all known fields
      full == (n \div 8) <= (last \div 8)
  IN IF m = "tail" /\ full THEN core \o Junk ELSE core

SizedM(body, opt, m) == IF body = <<>> THEN (IF opt THEN <<>> ELSE SizeM(0, m)) ELSE SizeM(Len(body), m) \o body

Pieces2M(t, v, i, acc, m) ==
  IF i > Len(t.fields) THEN acc
  ELSE LET f == t.fields[i]
           piece == IF Omitted(f) THEN [present |-> FALSE, b |-> <<>>]
                    ELSE IF IsOpt(f) THEN
                           (IF IsP(v[i]) THEN [present |-> TRUE, b |-> IF f.isbit THEN <<>> ELSE Enc2M(f.t, PV(v[i]), FALSE, m)]
                            ELSE [present |-> FALSE, b |-> <<>>])
                    ELSE LET e == Enc2M(f.t, v[i], m # "explicit", m) IN [present |-> e # <<>>, b |-> e]
       IN Pieces2M(t, v, i + 1, Append(acc, piece), m)

ElemBytes2M(t, v, j, m) == IF j > Len(v) THEN <<>> ELSE Enc2M(t.elem.t, v[j], FALSE, m) \o ElemBytes2M(t, v, j + 1, m)

Enc2M(tn, v, opt, m) ==
  LET t == TY(tn) IN
  CASE t.k = "prim" ->
         (CASE t.prim = "string" -> IF opt /\ v = <<>> THEN <<>> ELSE SizeM(Len(v), m) \o v
            [] OTHER -> Enc2(tn, v, opt))
    [] t.k = "struct" ->
         IF t.alias /\ ~t.unionElem THEN Enc2M(t.fields[1].t, v[1], opt, m)
         ELSE SizedM(Body2M(Pieces2M(t, v, 1, <<>>, m), IF t.unionElem THEN t.uidx ELSE 0, m), opt, m)
    [] t.k = "union"  ->
         LET vt == TY(t.variants[v.i]) IN SizedM(Body2M(Pieces2M(vt, v.v, 1, <<>>, m), v.i - 1, m), opt, m)
    [] t.k \in {"array", "dict"} ->
         IF Len(v) = 0 /\ m \in CountModes THEN SizeM(Len(CountM(0, m)), m) \o CountM(0, m)
         ELSE IF Len(v) = 0 THEN (IF opt THEN <<>> ELSE IF m = "tail" THEN SizeM(1 + Len(Junk), m) \o <<0>> \o Junk ELSE SizeM(0, m))
         ELSE LET body == CountM(Len(v), m) \o
                          (IF IsBitElem(t.elem.t) THEN BitsEnc(v) ELSE ElemBytes2M(t, v, 1, m))
                          \o (IF m = "tail" THEN Junk ELSE <<>>)
              IN SizeM(Len(body), m) \o body

---------------------------------------------------------------------------
(* tolerant reader; `lim` = index of the last byte the current object may use *)
OK2(v, pos) == [ok |-> TRUE, v |-> v, pos |-> pos]
Err2 == [ok |-> FALSE, v |-> <<>>, pos |-> 0]

Size2At(b, pos, lim) ==      \* [ok, val, pos] ; val < 2^31 only (larger => not ok here: it exceeds any input)
  LET r == ParseSize2(Concrete(SubSeq(b, pos, lim))) IN
  IF ~r.ok \/ r.val < 0 THEN Err2 ELSE OK2(r.val, pos + r.consumed)

RECURSIVE Dec2(_, _, _, _)
RECURSIVE DecFields2(_, _, _, _, _, _, _)
RECURSIVE DecElems2(_, _, _, _, _, _)

(* fields i.. of struct instance t from body bytes [pos..lim]; block = current presence byte *)
DecFields2(t, b, pos, lim, i, block, acc) ==
  IF i > Len(t.fields) THEN OK2(acc, pos)
  ELSE LET f == t.fields[i]
           newBlock == i % 8 = 0
           blk == IF ~newBlock THEN block ELSE IF pos > lim THEN 0 ELSE b[pos]
           p1 == IF newBlock /\ pos <= lim THEN pos + 1 ELSE pos
           on == (blk \div Pow2(i % 8)) % 2 = 1
       IN IF IsOpt(f) THEN
            (IF ~on THEN DecFields2(t, b, p1, lim, i + 1, blk, Append(acc, Absent))
             ELSE IF f.isbit THEN DecFields2(t, b, p1, lim, i + 1, blk, Append(acc, Pres(<<>>)))
             ELSE LET r == Dec2(f.t, b, p1, lim) IN
                  IF r.ok THEN DecFields2(t, b, r.pos, lim, i + 1, blk, Append(acc, Pres(r.v))) ELSE Err2)
          ELSE
            (IF ~on THEN DecFields2(t, b, p1, lim, i + 1, blk, Append(acc, Default2(f.t)))
             ELSE LET r == Dec2(f.t, b, p1, lim) IN
                  IF r.ok THEN DecFields2(t, b, r.pos, lim, i + 1, blk, Append(acc, r.v)) ELSE Err2)

DecElems2(t, b, pos, lim, n, acc) ==
  IF n = 0 THEN OK2(acc, pos)
  ELSE LET r == Dec2(t.elem.t, b, pos, lim) IN
       IF r.ok THEN DecElems2(t, b, r.pos, lim, n - 1, Append(acc, r.v)) ELSE Err2

(* object header: size, body limits, first presence byte, variant index *)
ObjHead2(b, pos, lim) ==
  LET s == Size2At(b, pos, lim) IN
  IF ~s.ok \/ s.v > lim - s.pos + 1 THEN [ok |-> FALSE]
  ELSE IF s.v = 0 THEN [ok |-> TRUE, empty |-> TRUE, next |-> s.pos]
  ELSE LET blim == s.pos + s.v - 1
           blk == b[s.pos]
       IN IF blk % 2 = 1 THEN
            (LET ix == Size2At(b, s.pos + 1, blim) IN
             IF ~ix.ok THEN [ok |-> FALSE]
             ELSE [ok |-> TRUE, empty |-> FALSE, next |-> blim + 1, blim |-> blim, blk |-> blk, idx |-> ix.v, fpos |-> ix.pos])
          ELSE [ok |-> TRUE, empty |-> FALSE, next |-> blim + 1, blim |-> blim, blk |-> blk, idx |-> 0, fpos |-> s.pos + 1]

Dec2(tn, b, pos, lim) ==
  LET t == TY(tn) IN
  CASE t.k = "prim" ->
         (CASE t.prim = "string" ->
                 (LET s == Size2At(b, pos, lim) IN
                  IF ~s.ok \/ s.v > lim - s.pos + 1 THEN Err2 ELSE OK2(SubSeq(b, s.pos, s.pos + s.v - 1), s.pos + s.v))
            [] t.prim = "bool" -> IF pos > lim THEN Err2 ELSE OK2(b[pos] # 0, pos + 1)
            [] t.prim = "bit"  -> OK2(TRUE, pos)
            [] OTHER -> LET k == PrimSize(t.prim) IN
                        IF lim - pos + 1 < k THEN Err2 ELSE OK2(SubSeq(b, pos, pos + k - 1), pos + k))
    [] t.k = "struct" ->
         IF t.alias /\ ~t.unionElem THEN
           (LET r == Dec2(t.fields[1].t, b, pos, lim) IN IF r.ok THEN OK2(<<r.v>>, r.pos) ELSE Err2)
         ELSE (LET h == ObjHead2(b, pos, lim) IN
               IF ~h.ok THEN Err2
               ELSE IF h.empty THEN OK2(Default2(tn), h.next)
               \* a stand-alone union variant accepts its own index, or no index at all (as the code does)
               ELSE IF h.blk % 2 = 1 /\ h.idx # (IF t.unionElem THEN t.uidx ELSE 0) THEN Err2
               ELSE LET r == DecFields2(t, b, h.fpos, h.blim, 1, h.blk, <<>>) IN
                    IF r.ok THEN OK2(r.v, h.next) ELSE Err2)
    [] t.k = "union" ->
         (LET h == ObjHead2(b, pos, lim) IN
          IF ~h.ok THEN Err2
          ELSE IF h.empty THEN OK2(Default2(tn), h.next)
          ELSE IF h.idx >= Len(t.variants) THEN Err2
          ELSE LET r == DecFields2(TY(t.variants[h.idx + 1]), b, h.fpos, h.blim, 1, h.blk, <<>>) IN
               IF r.ok THEN OK2([i |-> h.idx + 1, v |-> r.v], h.next) ELSE Err2)
    [] t.k \in {"array", "dict"} ->
         (LET s == Size2At(b, pos, lim) IN
          IF ~s.ok \/ s.v > lim - s.pos + 1 THEN Err2
          ELSE IF s.v = 0 THEN OK2(Default2(tn), s.pos)
          ELSE LET blim == s.pos + s.v - 1
                   c == Size2At(b, s.pos, blim)
                   \* the count of a constant-size array may be any size value, also one beyond 2^31
                   cp == ParseSize2(Concrete(SubSeq(b, s.pos, blim)))
               IN IF t.tuple /\ ~t.dyn /\ ~IsBitElem(t.elem.t) THEN
                    (IF ~cp.ok THEN Err2
                     ELSE LET n == N4(t.count)
                              m == IF cp.val # -1 /\ cp.val < n THEN cp.val ELSE n
                              r == DecElems2(t, b, s.pos + cp.consumed, blim, m, <<>>)
                          IN IF ~r.ok THEN Err2
                             ELSE OK2(r.v \o [j \in 1..(n - m) |-> Default2(t.elem.t)], blim + 1))
                  ELSE IF ~c.ok THEN Err2
                  ELSE IF IsBitElem(t.elem.t) THEN
                         (IF (c.v + 7) \div 8 > blim - c.pos + 1 THEN Err2
                          ELSE OK2(BitsDec(SubSeq(b, c.pos, blim), c.v), blim + 1))
                  ELSE IF c.v > blim - c.pos + 1 THEN Err2
                  ELSE LET r == DecElems2(t, b, c.pos, blim, c.v, <<>>) IN
                       IF ~r.ok THEN Err2
                       ELSE OK2(IF t.k = "dict" THEN NormDict(t, r.v) ELSE r.v, blim + 1))
=============================================================================
