------------------------------ MODULE MC_UdpAcks ------------------------------
(***************************************************************************)
(* Bounded state graphs of UdpAcks for edge replay.                        *)
(*   Points   : range end points, Add(f, t) for f <= t in Points           *)
(*   Combs    : initial states; c \in Combs starts from the c singleton    *)
(*              ranges {2}, {4}, ... {2c} (c = 0: empty) so that the       *)
(*              MaxAckSet cut-offs (50 numbers / 50 holes) are crossed     *)
(*   Bound    : 0 = unbounded number of Adds (the state is the set),       *)
(*              n > 0 = at most n Adds after the initial state             *)
(* Node labels of the dumped graph carry prefix and ranges; Emit prints,    *)
(* once per distinct state, the headers that must be built in that state.  *)
(***************************************************************************)
EXTENDS UdpAcks, Json

CONSTANTS Points, Combs, Bound

VARIABLE n

Proj(p, rs) == [prefix |-> p, ranges |-> rs, holes |-> HaveHoles(rs),
                ack |-> BuildAck(p, rs), nack |-> BuildNack(p, rs)]

Comb(c) == [i \in 1..c |-> <<2 * i, 2 * i>>]

Init == \E c \in Combs :
          /\ prefix = 0 /\ ranges = Comb(c) /\ S = {2 * i : i \in 1..c}
          /\ n = 0

AddRangeOp(f, t) ==
  /\ (Bound = 0 \/ n < Bound)
  /\ Add(f, t)
  /\ n' = (IF Bound = 0 THEN n ELSE n + 1)

Emit == PrintT(ToJson(<<"@@", Proj(prefix, ranges)>>))

Next == \E f \in Points, t \in Points : AddRangeOp(f, t)
=============================================================================
