------------------------------ MODULE MC_UdpAcks ------------------------------
(***************************************************************************)
(* Bounded state graphs of UdpAcks for edge replay; one TLC run explores   *)
(* several disjoint sub-graphs ("modes"), each given by                    *)
(*   points : range end points, AddRangeOp(f, t) for f <= t in points      *)
(*   combs  : initial states; c \in combs starts from the c singleton      *)
(*            ranges {2}, {4}, ... {2c} (c = 0: empty) so that the         *)
(*            MaxAckSet cut-offs (50 numbers / 50 holes) are crossed       *)
(*   bound  : 0 = unbounded number of Adds (the state is the set),         *)
(*            n > 0 = at most n Adds after the initial state               *)
(* dense: every subset of 0..N.  comb: around 50 one-number ranges.        *)
(* wide : ranges of more than 50 numbers behind a first range.             *)
(* Node labels of the dumped graph carry prefix and ranges; Emit prints,   *)
(* once per distinct state, the headers that must be built in that state.  *)
(***************************************************************************)
EXTENDS UdpAcks, Json

CONSTANT Modes         \* cfg: Modes <- ModesQuick | ModesThorough

ModesQuick ==
  { [name |-> "dense", points |-> 0..8, combs |-> {0}, bound |-> 0],
    [name |-> "comb",  points |-> (0..3) \cup (97..105), combs |-> {50, 51}, bound |-> 2],
    [name |-> "wide",  points |-> {0, 1, 2, 10, 40, 59, 60, 61, 62, 63, 64, 70, 120}, combs |-> {1}, bound |-> 2] }
ModesThorough ==
  { [name |-> "dense", points |-> 0..10, combs |-> {0}, bound |-> 0],
    [name |-> "comb",  points |-> (0..3) \cup (95..107), combs |-> 48..52, bound |-> 2],
    [name |-> "wide",  points |-> {0, 1, 2, 10, 40, 59, 60, 61, 62, 63, 64, 70, 120}, combs |-> {0, 1}, bound |-> 3] }

AllPoints == UNION {md.points : md \in Modes}
ModeDef(nm) == CHOOSE md \in Modes : md.name = nm

VARIABLES n, mode      \* Adds so far (when bounded); name of the mode

Proj(p, rs) == [prefix |-> p, ranges |-> rs, holes |-> HaveHoles(rs),
                ack |-> BuildAck(p, rs), nack |-> BuildNack(p, rs)]

Comb(c) == [i \in 1..c |-> <<2 * i, 2 * i>>]

Init == \E md \in Modes : \E c \in md.combs :
          /\ mode = md.name
          /\ prefix = 0 /\ ranges = Comb(c) /\ S = {2 * i : i \in 1..c}
          /\ n = 0

AddRangeOp(f, t) ==
  LET md == ModeDef(mode) IN
  /\ f \in md.points /\ t \in md.points
  /\ (md.bound = 0 \/ n < md.bound)
  /\ Add(f, t)
  /\ n' = (IF md.bound = 0 THEN n ELSE n + 1)
  /\ UNCHANGED mode

Emit == PrintT(ToJson(<<"@@", Proj(prefix, ranges)>>))

Next == \E f \in AllPoints, t \in AllPoints : AddRangeOp(f, t)
=============================================================================
