CONSTANTS
  MaxEdits = @EDITS@
  CtxMs = 60000
INIT Init
NEXT Next
INVARIANTS Emit ReqUnchanged TimeoutNeverLater RespFiltered ErrorKept FormatIndependent
CHECK_DEADLOCK FALSE
