CONSTANTS
  NT = @NT@
  MemLimit = 510
  MaxWin = 1000
  MaxMsgs = 100000000
  MaxFaults = 100000000
  MaxNet = 100000000
  MaxHdr = 100000000
  MaxBurst = 100000
  MaxAckSet = 50
  Sched = FALSE
  Patient = FALSE
  ChunkCounts <- TraceChunkCounts
INIT TInit
NEXT TNext
POSTCONDITION Accepted
CHECK_DEADLOCK FALSE
