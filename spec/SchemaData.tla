---- MODULE SchemaData ----
(* Placeholder so that the codec modules parse stand-alone; the harness     *)
(* overwrites this module with the instance graph of the corpus under test. *)
EXTENDS Integers, TLC
T0 == [k |-> "prim", prim |-> "int32", tag |-> <<0, 0, 0, 0>>, np |-> <<>>, tl2 |-> TRUE, origin2 |-> FALSE, fn |-> FALSE]
TY(n) == CASE n = "int32" -> T0
TopNames == <<>>
AllNames == <<"int32">>
ExtraVals(p) == {}
====
