----------------------------- MODULE PacketConn -----------------------------
(***************************************************************************)
(* Packet stream framing of pkg/rpc (packetconn.go, crypto.go,             *)
(* packetconn_hs.go, pingpong.go), one direction A -> B of a connection:   *)
(*                                                                         *)
(*   writer   sequence numbers from -2 (nonce) and -1 (handshake), header  *)
(*            = length / seq / type, body, CRC, zero bytes aligning to 4   *)
(*            when encrypted, on flush words 04 00 00 00 up to the next    *)
(*            16-byte block when encrypted;                                *)
(*   channel  the byte stream is delivered in arbitrary chunks (a set of   *)
(*            cut positions) and at most one byte of it is corrupted       *)
(*            (xor with a non-zero mask);                                  *)
(*   reader   skips at most 3 padding words, checks length / seq / type    *)
(*            (stricter while seq < 0), reads body + CRC + alignment,      *)
(*            checks alignment bytes and CRC, answers pings, refuses       *)
(*            unsolicited pongs.                                           *)
(*                                                                         *)
(* Abstractions.  Bodies and CRC values are opaque.  The checksum is IDEAL:*)
(* it matches iff header, body and CRC field of one written packet are     *)
(* read back unchanged (a real CRC32/CRC32C detects every single-byte      *)
(* change with certainty; the changes CBC garbling produces and re-framed  *)
(* reads after a corrupted length are detected with probability 1-2^-32).  *)
(* CBC is abstract: corrupting ciphertext byte p garbles the whole         *)
(* plaintext block of p (every byte of it differs from the original - the  *)
(* harness materialises exactly that) and flips byte p+16 by the same      *)
(* mask.  Plaintext and ciphertext positions coincide.  The stream is a    *)
(* sequence of SEGMENTS <<kind, packet, bytes>>, so bodies of any length   *)
(* cost nothing; header / padding / alignment bytes have concrete values   *)
(* and the reader does exact arithmetic on a corrupted length.             *)
(***************************************************************************)
EXTENDS Integers, Sequences, FiniteSets, TLC, Bitwise

Overhead     == 16          \* packetOverhead
MaxPacketLen == 16777215    \* maxPacketLen
MaxHsLen     == 1023        \* maxNonceHandshakeLen
Block        == 16          \* blockSize
StartSeq     == -2          \* startSeqNum
MaxPadWords  == 4           \* reader: "i >= blockSize/4" => excessive padding
TooBig       == 16777216    \* stands for every length > MaxPacketLen (TLC ints are 32 bit)

PadWord   == <<4, 0, 0, 0>>
NonceType == <<170, 135, 203, 122>>     \* 0x7acb87aa
HsType    == <<245, 238, 130, 118>>     \* 0x7682eef5
PingType  == <<223, 162, 48, 87>>       \* 0x5730a2df rpcPing
PongType  == <<167, 234, 48, 132>>      \* 0x8430eaa7 rpcPong
PingBody  == 8

LE4(n) == <<n % 256, (n \div 256) % 256, (n \div 65536) % 256, (n \div 16777216) % 256>>
SeqBytes(s) == IF s >= 0 THEN LE4(s) ELSE IF s = -1 THEN <<255, 255, 255, 255>> ELSE <<254, 255, 255, 255>>
LenOf(w) == IF w[4] # 0 THEN TooBig ELSE w[1] + 256 * w[2] + 65536 * w[3]
NonceLen(ver) == IF ver >= 2 THEN 60 ELSE 28    \* keyID, schema, time, nonce [, DH point]
HsLen == 28                                      \* flags, two PIDs
AlignOf(len) == (4 - (len % 4)) % 4

---------------------------------------------------------------------------
(* Writer.  w = [seq, ver, enc, encFrom, out, n, tail]:                    *)
(* out = plaintext segments in stream order, n = their total length,       *)
(* encFrom = offset at which encryption started (-1: never), tail = bytes  *)
(* of the last trailer (CRC + alignment) still held back by the writer     *)
(* (headerWriteBuf: they leave with the next header or with Flush).        *)

Seg(k, p, n) == <<k, p, n>>

W0 == [seq |-> StartSeq, ver |-> 0, enc |-> FALSE, encFrom |-> -1, out |-> <<>>, n |-> 0, tail |-> 0]

PacketSegs(i, len, enc) ==
  LET a == IF enc THEN AlignOf(len) ELSE 0 IN
  <<Seg("len", i, 4), Seg("seq", i, 4), Seg("type", i, 4)>>
    \o (IF len > 0 THEN <<Seg("body", i, len)>> ELSE <<>>)
    \o <<Seg("crc", i, 4)>>
    \o (IF a > 0 THEN <<Seg("align", i, a)>> ELSE <<>>)

(* WritePacketHeaderUnlocked refuses before touching any state *)
WriteErr(w, len) ==
  IF len > MaxPacketLen - Overhead THEN "size"
  ELSE IF w.ver = 0 /\ len % 4 # 0 THEN "size4"
  ELSE ""

(* header + body + trailer of packet number i (index into sent) *)
DoWrite(w, i, len) ==
  LET a == IF w.enc THEN AlignOf(len) ELSE 0 IN
  [w EXCEPT !.out = @ \o PacketSegs(i, len, w.enc), !.n = @ + Overhead + len + a,
            !.seq = @ + 1, !.tail = 4 + a]

(* FlushUnlocked: trailer + padding up to the block boundary *)
FlushPad(w) == IF w.enc THEN (Block - ((w.n - w.encFrom) % Block)) % Block ELSE 0
DoFlush(w) ==
  LET p == FlushPad(w) IN
  [w EXCEPT !.out = IF p > 0 THEN @ \o <<Seg("pad", 0, p)>> ELSE @, !.n = @ + p, !.tail = 0]

DoEncrypt(w) == [w EXCEPT !.enc = TRUE, !.encFrom = w.n]   \* everything before is flushed

SentHs(ver) == << [tp |-> NonceType, len |-> NonceLen(ver), h |-> "nonce", seq |-> -2],
                  [tp |-> HsType, len |-> HsLen, h |-> "hs", seq |-> -1] >>

(* the writer after its half of the handshake, as one function *)
WNonce(ver) == DoFlush(DoWrite(W0, 1, NonceLen(ver)))
WNegotiated(w, enc, ver) == LET x == [w EXCEPT !.ver = ver] IN IF enc THEN DoEncrypt(x) ELSE x
WHandshake(w) == DoFlush(DoWrite(w, 2, HsLen))
WAfterHandshake(enc, ver) == WHandshake(WNegotiated(WNonce(ver), enc, ver))

---------------------------------------------------------------------------
(* Nonce negotiation (prepareNonceClient / prepareNonceServer and the      *)
(* client's reading of the answer).  requireX = forceEncryption of X or    *)
(* the peer is neither on the same machine nor in a trusted subnet group   *)
(* of X; keyRel = how the server's keys relate to the client's key:        *)
(* "none" (server has none), "same", "other" (different key id),           *)
(* "prefix" (same 4-byte id, different tail).                              *)

ClientSchema(hasKey, requireC) ==
  IF requireC THEN (IF hasKey THEN "aes" ELSE "error")      \* "encryption is required, but client has empty encryption key"
  ELSE IF hasKey THEN "noneOrAes" ELSE "none"

KeyFound(hasKey, keyRel) == hasKey /\ keyRel \in {"same", "prefix"}

ServerAnswer(cs, requireS, hasKey, keyRel) ==
  IF cs # "aes" /\ ~requireS THEN "none"
  ELSE IF cs = "none" THEN "error"                            \* refusing to set up an unencrypted connection
  ELSE IF KeyFound(hasKey, keyRel) THEN "aes" ELSE "error"    \* no server key with the client's key id

NegoOutcome(hasKey, requireC, requireS, keyRel) ==
  IF ClientSchema(hasKey, requireC) = "error" THEN "client_refuses"
  ELSE IF ServerAnswer(ClientSchema(hasKey, requireC), requireS, hasKey, keyRel) = "error" THEN "server_refuses"
  ELSE IF ServerAnswer(ClientSchema(hasKey, requireC), requireS, hasKey, keyRel) = "none" THEN "plain"
  ELSE IF keyRel = "same" THEN "aes"
  ELSE "key_mismatch"             \* AES agreed on different keys: the encrypted handshake packet is refused

---------------------------------------------------------------------------
(* Channel: what a single corrupted byte does to the plaintext the reader  *)
(* sees.  cr = [pos, mask], pos = 0: no corruption.  Result: garbled       *)
(* interval g1..g2 (empty when g1 > g2), flipped position f (0: none).     *)

InEnc(w, p) == w.encFrom >= 0 /\ p > w.encFrom
Affected(w, cr) ==
  IF cr.pos = 0 THEN [g1 |-> 1, g2 |-> 0, f |-> 0, m |-> 0]
  ELSE IF InEnc(w, cr.pos) THEN
    LET b == w.encFrom + ((cr.pos - w.encFrom - 1) \div Block) * Block IN
    [g1 |-> b + 1, g2 |-> b + Block, f |-> IF cr.pos + Block <= w.n THEN cr.pos + Block ELSE 0, m |-> cr.mask]
  ELSE [g1 |-> 1, g2 |-> 0, f |-> cr.pos, m |-> cr.mask]

FirstAffected(af) == IF af.g1 <= af.g2 THEN af.g1 ELSE af.f     \* 0 when nothing is affected

(* ciphertext needed to see plaintext up to `need`: whole blocks *)
CNeed(w, need) ==
  IF InEnc(w, need) THEN w.encFrom + ((need - w.encFrom + Block - 1) \div Block) * Block ELSE need
(* chunking: a cut after every `every` bytes (0: none) and after each position in `at`;
   end of the chunk that contains stream byte c *)
NoCuts == [every |-> 0, at |-> {}]
MinOf(S) == CHOOSE x \in S : \A y \in S : x <= y
CEnd(cuts, c, n) ==
  MinOf({n} \cup {x \in cuts.at : x >= c /\ x < n}
            \cup (IF cuts.every > 0 /\ ((c + cuts.every - 1) \div cuts.every) * cuts.every < n
                  THEN {((c + cuts.every - 1) \div cuts.every) * cuts.every} ELSE {}))

---------------------------------------------------------------------------
(* Reader.  cx = [out, n, sent, af] is what is on the wire; r = [pos, seq, *)
(* ver, enc, sj, sb] the reader: pos = bytes consumed, <<sj, sb>> a cursor *)
(* (segment sj starts at offset sb and is the one holding byte pos + 1).   *)
(* Byte values as the reader sees them: 0..255 concrete, -1 opaque and     *)
(* unchanged, -2 garbled, -3 opaque and flipped.                           *)
(* Style note: shared intermediate values are passed as operator arguments *)
(* (TLC evaluates an argument once) instead of LET (re-evaluated per use). *)

RECURSIVE Seek(_, _, _, _)
Seek(out, j, base, p) ==      \* cursor of the segment holding byte p, searching forward from <<j, base>>
  IF j > Len(out) THEN <<j, base>>
  ELSE IF p <= base + out[j][3] THEN <<j, base>>
  ELSE Seek(out, j + 1, base + out[j][3], p)

CellOf(out, cu, p) ==          \* <<kind, packet, index in segment, segment length>>
  IF cu[1] > Len(out) THEN <<"none", 0, 0, 0>>
  ELSE <<out[cu[1]][1], out[cu[1]][2], p - cu[2] - 1, out[cu[1]][3]>>
CellFrom(out, cu, p) == CellOf(out, Seek(out, cu[1], cu[2], p), p)

OrigWord(cx, c) ==
  CASE c[1] = "len"  -> LE4(Overhead + cx.sent[c[2]].len)
    [] c[1] = "seq"  -> SeqBytes(cx.sent[c[2]].seq)
    [] c[1] = "type" -> cx.sent[c[2]].tp
    [] OTHER         -> PadWord
OrigByte(cx, c) ==
  CASE c[1] \in {"len", "seq", "type"} -> OrigWord(cx, c)[c[3] + 1]
    [] c[1] = "pad"   -> IF c[3] % 4 = 0 THEN 4 ELSE 0
    [] c[1] = "align" -> 0
    [] OTHER          -> -1

Flip(cx, v, p) == IF p = cx.af.f THEN (IF v >= 0 THEN v ^^ cx.af.m ELSE -3) ELSE v
ByteFrom(cx, cu, p) ==
  IF cx.af.g1 <= p /\ p <= cx.af.g2 THEN -2 ELSE Flip(cx, OrigByte(cx, CellFrom(cx.out, cu, p)), p)

Dirty(cx, a, b) == (cx.af.g1 <= b /\ a <= cx.af.g2) \/ (a <= cx.af.f /\ cx.af.f <= b)

WordBytes(cx, cu, o) == <<ByteFrom(cx, cu, o + 1), ByteFrom(cx, cu, o + 2), ByteFrom(cx, cu, o + 3), ByteFrom(cx, cu, o + 4)>>
WordC(cx, cu, o, c) ==         \* fast path: an untouched whole header / padding word
  IF ~Dirty(cx, o + 1, o + 4) /\ c[3] % 4 = 0 /\ c[3] + 4 <= c[4] /\ c[1] \in {"len", "seq", "type", "pad"}
  THEN OrigWord(cx, c) ELSE WordBytes(cx, cu, o)
WordFrom(cx, cu, o) == WordC(cx, cu, o, CellFrom(cx.out, cu, o + 1))
WGarb(w) == w[1] = -2 \/ w[2] = -2 \/ w[3] = -2 \/ w[4] = -2
WAbs(w)  == w[1] = -1 \/ w[1] = -3 \/ w[2] = -1 \/ w[2] = -3 \/ w[3] = -1 \/ w[3] = -3 \/ w[4] = -1 \/ w[4] = -3

(* padding skip of readPacketHeaderUnlockedImpl; i = padding words skipped so far *)
RECURSIVE SkipPad(_, _, _, _)
SkipPad(cx, cu, o, i) ==
  IF i >= MaxPadWords THEN [err |-> "pad", o |-> o]
  ELSE IF o = cx.n THEN [err |-> "eof", o |-> o]           \* FIN on a packet boundary
  ELSE IF o + 4 > cx.n THEN [err |-> "ueof", o |-> o]
  ELSE IF WordFrom(cx, cu, o) = PadWord THEN SkipPad(cx, cu, o + 4, i + 1)
  ELSE [err |-> "", o |-> o]

FirstHeader(cx, r) ==          \* first packet: no padding, 12 bytes at once
  IF r.pos = cx.n THEN [err |-> "eof", o |-> r.pos]
  ELSE IF r.pos + 12 > cx.n THEN [err |-> "ueof", o |-> r.pos]
  ELSE [err |-> "", o |-> r.pos]

HErr(e, need, eof) == [err |-> e, need |-> need, eof |-> eof, o |-> 0, len |-> 0, tp |-> <<>>, cu |-> <<1, 0>>]

HeaderLen(cx, r, o, cu, lw, sw, tw, len) ==      \* the checks, in the order of the code
  IF WAbs(lw) THEN HErr("unknown", o + 12, FALSE)                       \* framing lost on opaque bytes
  ELSE IF len < Overhead \/ len > MaxPacketLen THEN HErr("size", o + 12, FALSE)
  ELSE IF r.ver = 0 /\ len % 4 # 0 THEN HErr("size4", o + 12, FALSE)
  ELSE IF WAbs(sw) \/ WAbs(tw) THEN HErr("unknown", o + 12, FALSE)
  ELSE IF r.seq = StartSeq /\ tw # NonceType THEN HErr("nonce_type", o + 12, FALSE)
  ELSE IF r.seq = StartSeq + 1 /\ tw # HsType THEN HErr("hs_type", o + 12, FALSE)
  ELSE IF r.seq < 0 /\ len > MaxHsLen THEN HErr("size", o + 12, FALSE)
  ELSE IF sw # SeqBytes(r.seq) THEN HErr("seq", o + 12, FALSE)
  ELSE [err |-> "", need |-> o + 12, eof |-> FALSE, o |-> o, len |-> len, tp |-> tw, cu |-> cu]
HeaderWords(cx, r, o, cu, lw, sw, tw) ==
  HeaderLen(cx, r, o, cu, lw, sw, tw, IF WGarb(lw) THEN TooBig ELSE IF WAbs(lw) THEN -1 ELSE LenOf(lw))  \* garbled: high byte # 0
HeaderAt(cx, r, o, cu) ==
  HeaderWords(cx, r, o, cu, WordFrom(cx, cu, o), WordFrom(cx, cu, o + 4), WordFrom(cx, cu, o + 8))
HeaderSp(cx, r, sp) ==
  IF sp.err = "pad" THEN HErr("pad", sp.o, FALSE)
  ELSE IF sp.err # "" THEN HErr(sp.err, cx.n, TRUE)
  ELSE IF sp.o + 12 > cx.n THEN HErr("ueof", cx.n, TRUE)
  ELSE HeaderAt(cx, r, sp.o, Seek(cx.out, r.sj, r.sb, sp.o + 1))
Header(cx, r) ==
  HeaderSp(cx, r, IF r.seq = StartSeq THEN FirstHeader(cx, r) ELSE SkipPad(cx, <<r.sj, r.sb>>, r.pos, 0))

(* ReadPacketBodyUnlocked: body, CRC and alignment in one read *)
BRes(e, need, eof, k, fin) == [err |-> e, need |-> need, eof |-> eof, k |-> k, fin |-> fin]
BodyCrc(cx, h, bs, fin, c) ==
  IF c[1] # "len" \/ c[3] # 0 THEN BRes("unknown", fin, FALSE, 0, fin)
  ELSE IF h.len = Overhead + cx.sent[c[2]].len /\ ~Dirty(cx, h.o + 1, h.o + 12 + bs + 4)
       THEN BRes("", fin, FALSE, c[2], fin)                     \* the ideal checksum matches
  ELSE BRes("crc", fin, FALSE, 0, fin)
BodyAlign(cx, h, bs, al, fin, ab) ==
  IF \E i \in 1..al : ab[i] = -2 \/ ab[i] > 0 THEN BRes("align", fin, FALSE, 0, fin)
  ELSE IF \E i \in 1..al : ab[i] < 0 THEN BRes("unknown", fin, FALSE, 0, fin)
  ELSE BodyCrc(cx, h, bs, fin, CellFrom(cx.out, h.cu, h.o + 1))
BodyFin(cx, h, bs, al, fin) ==
  IF fin > cx.n THEN BRes("ueof", cx.n, TRUE, 0, fin)
  ELSE BodyAlign(cx, h, bs, al, fin, [i \in 1..al |-> ByteFrom(cx, h.cu, h.o + 12 + bs + 4 + i)])
BodyAl(cx, h, bs, al) == BodyFin(cx, h, bs, al, h.o + 12 + bs + 4 + al)
Body(cx, r, h) == BodyAl(cx, h, h.len - Overhead, IF r.enc THEN AlignOf(h.len) ELSE 0)

RErr(r, e, need, eof, pongs) ==
  [r |-> r, res |-> [k |-> "err", e |-> e, i |-> 0, need |-> need, eof |-> eof], pongs |-> pongs]
Adv(r, fin, cu) == [r EXCEPT !.pos = fin, !.sj = cu[1], !.sb = cu[2]]
Advance(cx, r, h, fin) == Adv(r, fin, Seek(cx.out, h.cu[1], h.cu[2], fin + 1))

(* one ReadPacket call: built-in pings are answered and skipped *)
RECURSIVE RP(_, _, _)
RPBody(cx, r1, pongs, h, b) ==
  IF b.err # "" THEN RErr(r1, b.err, b.need, b.eof, pongs)
  ELSE IF h.tp = PingType THEN RP(cx, Advance(cx, r1, h, b.fin), Append(pongs, b.k))
  ELSE IF h.tp = PongType THEN RErr(r1, "pong", b.need, FALSE, pongs)     \* no ping was sent
  ELSE [r |-> Advance(cx, r1, h, b.fin),
        res |-> [k |-> "pkt", e |-> "", i |-> b.k, need |-> b.need, eof |-> FALSE],
        pongs |-> pongs]
RPHeader(cx, r, r1, pongs, h) ==
  IF h.err # "" THEN RErr(r, h.err, h.need, h.eof, pongs)
  ELSE IF h.tp = PingType /\ h.len # Overhead + PingBody THEN RErr(r1, "pinglen", h.need, FALSE, pongs)
  ELSE IF h.tp = PongType /\ h.len # Overhead + PingBody THEN RErr(r1, "ponglen", h.need, FALSE, pongs)
  ELSE RPBody(cx, r1, pongs, h, Body(cx, r1, h))
RP(cx, r, pongs) == RPHeader(cx, r, [r EXCEPT !.seq = @ + 1], pongs, Header(cx, r))

(* all ReadPacket calls until the reader gives up: <<results, pongs>> *)
RECURSIVE RunFrom(_, _, _, _)
RunStep(cx, acc, s) ==
  IF s.res.k = "err" THEN <<Append(acc, s.res), s.pongs>>
  ELSE RunFrom(cx, s.r, Append(acc, s.res), s.pongs)
RunFrom(cx, r, acc, pongs) == RunStep(cx, acc, RP(cx, r, pongs))

R0 == [pos |-> 0, seq |-> StartSeq, ver |-> 0, enc |-> FALSE, sj |-> 1, sb |-> 0]

NoCorr == [pos |-> 0, mask |-> 0]
Cx(w, s, cr) == [out |-> w.out, n |-> w.n, sent |-> s, af |-> Affected(w, cr)]

(* the reader after its half of the handshake (it has consumed both packets) *)
RNego(r, enc, ver) == [r EXCEPT !.ver = ver, !.enc = enc]
RAfterHandshake(enc, ver) ==
  RP(Cx(WAfterHandshake(enc, ver), SentHs(ver), NoCorr),
     RNego(RP(Cx(WNonce(ver), SentHs(ver), NoCorr), R0, <<>>).r, enc, ver), <<>>).r

---------------------------------------------------------------------------
(* State machine.  phase: "nonce" (A has to write its nonce packet),       *)
(* "rdnonce", "nego", "hs", "rdhs", "open" (user packets may be written),  *)
(* "read" (stream sealed: flushed, closed, chunking and corruption fixed), *)
(* "done".                                                                 *)

VARIABLES phase, cfg, aw, bw, sent, wres, chn, rd, log, pongs

vars == <<phase, cfg, aw, bw, sent, wres, chn, rd, log, pongs>>

RECURSIVE WritePongs(_, _)
WritePongs(w, ps) ==            \* WritePacketBuiltin: one flushed pong per answered ping
  IF ps = <<>> THEN w ELSE WritePongs(DoFlush(DoWrite(w, Head(ps), PingBody)), Tail(ps))

Start(enc, ver) ==
  /\ phase = "nonce" /\ aw = W0
  /\ cfg' = [enc |-> enc, ver |-> ver]
  /\ aw' = WNonce(ver)
  /\ sent' = <<SentHs(ver)[1]>>
  /\ phase' = "rdnonce"
  /\ UNCHANGED <<bw, wres, chn, rd, log, pongs>>

ReadStep ==      \* one ReadPacket call of B
  \E s \in {RP(Cx(aw, sent, chn.corr), rd, <<>>)} :
  \E cn \in {CNeed(aw, s.res.need)} :
  /\ rd' = s.r
  /\ log' = Append(log, [k |-> s.res.k, e |-> s.res.e, i |-> s.res.i, eof |-> s.res.eof,
                          need |-> cn, cend |-> CEnd(chn.cuts, cn, aw.n)])
  /\ pongs' = pongs \o s.pongs
  /\ bw' = WritePongs(bw, s.pongs)
  /\ phase' = IF phase = "rdnonce" THEN (IF s.res.k = "pkt" THEN "nego" ELSE "done")
              ELSE IF phase = "rdhs" THEN (IF s.res.k = "pkt" THEN "open" ELSE "done")
              ELSE IF s.res.k = "err" THEN "done" ELSE "read"

RdHandshake ==
  /\ phase \in {"rdnonce", "rdhs"}
  /\ ReadStep
  /\ UNCHANGED <<cfg, aw, sent, wres, chn>>

Negotiate ==     \* both ends switch to the negotiated version / encryption
  /\ phase = "nego"
  /\ aw' = WNegotiated(aw, cfg.enc, cfg.ver)
  /\ rd' = RNego(rd, cfg.enc, cfg.ver)
  /\ phase' = "hs"
  /\ UNCHANGED <<cfg, bw, sent, wres, chn, log, pongs>>

WriteHs ==
  /\ phase = "hs"
  /\ aw' = WHandshake(aw)
  /\ sent' = Append(sent, SentHs(cfg.ver)[2])
  /\ phase' = "rdhs"
  /\ UNCHANGED <<cfg, bw, wres, chn, rd, log, pongs>>

(* B's own writer after B's half of the handshake has the same shape *)
Opened == phase = "open" /\ Len(sent) = 2 /\ bw = W0
OpenB ==
  /\ Opened
  /\ bw' = [aw EXCEPT !.out = <<>>]     \* only what B writes from now on is compared
  /\ log' = <<>>
  /\ UNCHANGED <<phase, cfg, aw, sent, wres, chn, rd, pongs>>

Write(tp, len, h, flush) ==     \* WritePacket / WritePacketNoFlush / parts, by A
  /\ phase = "open" /\ bw # W0
  /\ LET e == WriteErr(aw, len) IN
     /\ wres' = Append(wres, [tp |-> tp, len |-> len, h |-> h, flush |-> flush, err |-> e, pad |-> 0])
     /\ IF e # "" THEN UNCHANGED <<aw, sent>>
        ELSE LET w1 == DoWrite(aw, Len(sent) + 1, len) IN
             /\ aw' = IF flush THEN DoFlush(w1) ELSE w1
             /\ sent' = Append(sent, [tp |-> tp, len |-> len, h |-> h, seq |-> aw.seq])
  /\ UNCHANGED <<phase, cfg, bw, chn, rd, log, pongs>>

(* a foreign writer may put padding words between packets of a plain stream (the reader skips
   them whether or not the stream is encrypted): Flush, then k raw words 04 00 00 00 *)
RawPad(k) ==
  /\ phase = "open" /\ bw # W0 /\ ~aw.enc /\ k > 0
  /\ aw' = [DoFlush(aw) EXCEPT !.out = @ \o <<Seg("pad", -1, 4 * k)>>, !.n = @ + 4 * k]
  /\ wres' = Append(wres, [tp |-> <<>>, len |-> 0, h |-> 0, flush |-> TRUE, err |-> "", pad |-> k])
  /\ UNCHANGED <<phase, cfg, bw, sent, chn, rd, log, pongs>>

Seal(cuts, corr) ==             \* final Flush, close; the channel's choices are fixed
  /\ phase = "open" /\ bw # W0
  /\ aw' = DoFlush(aw)
  /\ chn' = [cuts |-> cuts, corr |-> corr]
  /\ phase' = "read"
  /\ UNCHANGED <<cfg, bw, sent, wres, rd, log, pongs>>

Read ==
  /\ phase = "read"
  /\ ReadStep
  /\ UNCHANGED <<cfg, aw, sent, wres, chn>>

(* the whole handshake of a fresh connection as one step (closed forms, see HandshakeClosedForm);
   used by trace validation, where it also separates concatenated traces *)
Restart(enc, ver) ==
  /\ cfg' = [enc |-> enc, ver |-> ver]
  /\ aw' = WAfterHandshake(enc, ver)
  /\ bw' = [WAfterHandshake(enc, ver) EXCEPT !.out = <<>>]
  /\ sent' = SentHs(ver)
  /\ rd' = RAfterHandshake(enc, ver)
  /\ wres' = <<>> /\ log' = <<>> /\ pongs' = <<>>
  /\ chn' = [cuts |-> NoCuts, corr |-> NoCorr]
  /\ phase' = "open"

InitState ==
  /\ phase = "nonce" /\ cfg = [enc |-> FALSE, ver |-> 0]
  /\ aw = W0 /\ bw = W0 /\ sent = <<>> /\ wres = <<>>
  /\ chn = [cuts |-> NoCuts, corr |-> NoCorr]
  /\ rd = R0 /\ log = <<>> /\ pongs = <<>>

---------------------------------------------------------------------------
(* Properties *)

HsEnd == WAfterHandshake(cfg.enc, cfg.ver).n
IsBuiltin(tp) == tp = PingType \/ tp = PongType
UserIdx == {i \in 3..Len(sent) : ~IsBuiltin(sent[i].tp)}
Delivered == [j \in 1..Len(log) |-> log[j].i]
DeliveredPkts == SelectSeq(Delivered, LAMBDA i : i > 0)
RECURSIVE SeqOfSet(_)
SeqOfSet(S) == IF S = {} THEN <<>> ELSE LET x == CHOOSE a \in S : \A b \in S : a <= b IN <<x>> \o SeqOfSet(S \ {x})
PktEnd(i) ==        \* stream offset of the last byte of packet i (CRC and alignment included)
  LET RECURSIVE F(_, _, _)
      F(j, base, last) == IF j > Len(aw.out) THEN last
                          ELSE F(j + 1, base + aw.out[j][3], IF aw.out[j][2] = i THEN base + aw.out[j][3] ELSE last)
  IN F(1, 0, 0)
ProtocolError == \/ \E i \in 3..Len(sent) : \/ sent[i].tp = PongType
                                            \/ sent[i].tp = PingType /\ sent[i].len # PingBody
                 \/ \E j \in 1..Len(aw.out) : aw.out[j][1] = "pad" /\ aw.out[j][3] >= 4 * MaxPadWords

(* the stepwise handshake equals the closed forms used by trace validation *)
HandshakeClosedForm ==
  Opened => aw = WAfterHandshake(cfg.enc, cfg.ver) /\ rd = RAfterHandshake(cfg.enc, cfg.ver)

(* C35, first half: without corruption, for every chunking, the delivered sequence is the
   written sequence of non-built-in packets, every well-formed ping was answered in order,
   and the stream ends with a clean EOF *)
RoundTrip ==
  phase = "done" /\ Len(sent) >= 2 /\ chn.corr.pos = 0 /\ ~ProtocolError =>
    /\ DeliveredPkts = SeqOfSet(UserIdx)
    /\ log[Len(log)].e = "eof"
    /\ pongs = SeqOfSet({i \in 3..Len(sent) : sent[i].tp = PingType})

(* C35, second half: one corrupted byte after the handshake => the reader ends with an error
   (never a clean EOF), delivers exactly the packets that end before the first affected byte
   (up to an earlier protocol error) and never anything else *)
CorruptionDetected ==
  phase = "done" /\ chn.corr.pos > 0 =>
    LET fa == FirstAffected(Affected(aw, chn.corr))
        before == {i \in UserIdx : PktEnd(i) < fa}
    IN /\ log[Len(log)].k = "err" /\ log[Len(log)].e # "eof"
       /\ \A j \in 1..Len(DeliveredPkts) : DeliveredPkts[j] \in before
       /\ ~ProtocolError => DeliveredPkts = SeqOfSet(before)

(* delivery is in order, without repetition, and only of written packets *)
InOrder ==
  \A j \in 1..Len(DeliveredPkts) :
     /\ DeliveredPkts[j] \in 1..Len(sent)
     /\ j > 1 => DeliveredPkts[j - 1] < DeliveredPkts[j]

(* framing is never re-synchronised on opaque bytes within the explored space *)
NoUnknown == \A j \in 1..Len(log) : log[j].e # "unknown"

(* writer facts the reader relies on *)
WriterShape ==
  /\ aw.enc => (aw.tail = 0 => (aw.n - aw.encFrom) % Block = 0)
  /\ \A j \in 1..Len(aw.out) : aw.out[j][1] = "pad" /\ aw.out[j][2] = 0 => aw.out[j][3] \in {4, 8, 12}   \* < MaxPadWords words
  /\ aw.seq = StartSeq + Len(sent)
=============================================================================
