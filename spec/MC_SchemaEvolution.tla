------------------------ MODULE MC_SchemaEvolution ------------------------
(***************************************************************************)
(* The edit space as a state machine.  Initial states: (b, b, <<>>) for    *)
(* every base schema b of bases.json (bases derived from the samples'      *)
(* prototype.tl and seeded random bases written by the harness).  Next     *)
(* applies one edit action to `new`.  Mode selects the catalogue:          *)
(*   "safe"   - sequences of documented safe edits            (C29)        *)
(*   "unsafe" - documented unsafe edits                        (C30)        *)
(*   "mixed"  - everything, incl. the undocumented unsafe ones (C28)       *)
(* Theorems (checked in every state when EvalWC):                          *)
(*   SafePreserves - only safe edits        => WireCompatible(old, new)    *)
(*   UnsafeBreaks  - one non-benign unsafe edit => ~WireCompatible         *)
(* Report prints the case; with Strict = FALSE the theorems are only       *)
(* reported (field wc), not enforced.                                      *)
(***************************************************************************)
EXTENDS SchemaEvolution

CONSTANTS MaxEdits, Mode, EvalWC, Strict

Bases == JsonDeserialize("bases.json")

VARIABLES old, new, log
vars == <<old, new, log>>

Init == \E k \in 1..Len(Bases) : old = Bases[k] /\ new = Bases[k] /\ log = <<>>

SafeOn   == Mode \in {"safe", "mixed"}
UnsafeOn == Mode \in {"unsafe", "mixed"}
UndocOn  == Mode \in {"mixed"}
Apply(R) == /\ Len(log) < MaxEdits
            /\ \E r \in R : new' = r.s /\ log' = Append(log, r.e)
            /\ UNCHANGED old

DoAppendMaskedField         == SafeOn /\ Apply(AppendMaskedField(old, new))
DoAppendConstructor         == SafeOn /\ Apply(AppendConstructor(old, new))
DoAddType                   == SafeOn /\ Apply(AddType(old, new))
DoAddFunction               == SafeOn /\ Apply(AddFunction(old, new))
DoAppendFunctionMaskAndArgs == SafeOn /\ Apply(AppendFunctionMaskAndArgs(old, new))
DoRemoveConstructor   == UnsafeOn /\ Apply(RemoveConstructor(old, new))
DoRemoveFunction      == UnsafeOn /\ Apply(RemoveFunction(old, new))
DoRemoveField         == UnsafeOn /\ Apply(RemoveField(old, new))
DoRemoveTemplateArg   == UnsafeOn /\ Apply(RemoveTemplateArg(old, new))
DoChangeFieldType     == UnsafeOn /\ Apply(ChangeFieldType(old, new))
DoChangeMaskRef       == UnsafeOn /\ Apply(ChangeMaskRef(old, new))
DoChangeMaskBit       == UnsafeOn /\ Apply(ChangeMaskBit(old, new))
DoAddMaskToField      == UnsafeOn /\ Apply(AddMaskToField(old, new))
DoRemoveMaskFromField == UnsafeOn /\ Apply(RemoveMaskFromField(old, new))
DoAppendUnmaskedField == UnsafeOn /\ Apply(AppendUnmaskedField(old, new))
DoReuseUsedBit        == UnsafeOn /\ Apply(ReuseUsedBit(old, new))
DoBareToUnion         == UnsafeOn /\ Apply(BareToUnion(old, new))
DoChangeExplicitTag   == UndocOn /\ Apply(ChangeExplicitTag(old, new))
DoAppendFieldOnSetBit == UndocOn /\ Apply(AppendFieldOnSetBit(old, new))
DoDropExplicitTag     == UndocOn /\ Apply(DropExplicitTag(old, new))
DoAddExplicitTag      == UndocOn /\ Apply(AddExplicitTag(old, new))

Next == \/ DoAppendMaskedField \/ DoAppendConstructor \/ DoAddType \/ DoAddFunction \/ DoAppendFunctionMaskAndArgs
        \/ DoRemoveConstructor \/ DoRemoveFunction \/ DoRemoveField \/ DoRemoveTemplateArg \/ DoChangeFieldType
        \/ DoChangeMaskRef \/ DoChangeMaskBit \/ DoAddMaskToField \/ DoRemoveMaskFromField \/ DoAppendUnmaskedField
        \/ DoReuseUsedBit \/ DoBareToUnion \/ DoChangeExplicitTag \/ DoAppendFieldOnSetBit
        \/ DoDropExplicitTag \/ DoAddExplicitTag

AllSafe == \A i \in 1..Len(log) : log[i].safe
OneUnsafe == Len(log) = 1 /\ ~log[1].safe /\ ~log[1].benign

Report ==
  LET wc == IF EvalWC THEN WireCompatible(old, new) ELSE TRUE
      bi == CHOOSE k \in 1..Len(Bases) : Bases[k] = old IN
  /\ PrintT(ToJson(<<"@@", [b |-> bi, new |-> new, log |-> log,
                            wc |-> IF EvalWC THEN (IF wc THEN "yes" ELSE "no") ELSE "skip"]>>))
  /\ (Strict /\ EvalWC) => /\ (AllSafe => wc)            \* SafePreserves
                           /\ (OneUnsafe => ~wc)         \* UnsafeBreaks

(* the two theorems as separate invariants (used when nothing has to be printed) *)
SafePreserves == AllSafe => WireCompatible(old, new)
UnsafeBreaks  == OneUnsafe => ~WireCompatible(old, new)

(* size of the value space WireCompatible quantifies over, per base *)
ASSUME PrintT(ToJson(<<"@@", [basevalues |-> [k \in 1..Len(Bases) |-> NumValues(Bases[k])]]>>))
=============================================================================
