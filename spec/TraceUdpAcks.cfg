CONSTANTS
  MaxAckSet = 50
INIT TraceInit
NEXT TraceNext
POSTCONDITION TraceAccepted
CHECK_DEADLOCK FALSE
