----------------------------- MODULE TracePrim -----------------------------
(***************************************************************************)
(* Trace validation (code -> spec) for the primitive codecs, stateless     *)
(* parallel form: every recorded call of pkg/basictl is one initial state  *)
(* and must satisfy EventOK, i.e. the observed result is exactly the one   *)
(* the specification (module Prim) prescribes for the observed input.      *)
(***************************************************************************)
EXTENDS Prim

Trace == ndJsonDeserialize("trace.ndjson")

VARIABLE i
Init == i \in 1..Len(Trace)
Next == UNCHANGED i

ErrClass(e) == IF e = "" THEN "" ELSE IF e = "eof" THEN "eof" ELSE "other"
HdrLen1(b0) == IF b0 <= 253 THEN 1 ELSE IF b0 = 254 THEN 4 ELSE 8
HdrLen2(b0) == IF b0 < 254 THEN 1 ELSE IF b0 = 254 THEN 3 ELSE 9

EventOK ==
  LET e == Trace[i] IN
  CASE e.op = "w1" -> LET l == Len(e.body) IN e.out = Hdr1(l) \o e.body \o Zeros(Pad1(l))
    [] e.op = "r1" -> LET r == Dec1Str(Concrete(e.in)) IN
                      /\ ErrClass(r.err) = e.err
                      /\ r.ok => /\ e.consumed = r.consumed
                                 /\ e.val = SubSeq(e.in, HdrLen1(e.in[1]) + 1, HdrLen1(e.in[1]) + r.len)
    [] e.op = "wz" -> e.out = Size2(e.val)
    [] e.op = "r2" -> LET r == Dec2Str(Concrete(e.in)) IN
                      /\ ErrClass(r.err) = e.err
                      /\ r.ok => /\ e.consumed = r.consumed
                                 /\ e.val = SubSeq(e.in, HdrLen2(e.in[1]) + 1, HdrLen2(e.in[1]) + r.len)
    [] e.op = "wb" -> e.out = BitsEnc(e.bits)
    [] OTHER -> FALSE
=============================================================================
