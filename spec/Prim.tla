------------------------------- MODULE Prim -------------------------------
(***************************************************************************)
(* Runtime primitives of the TL formats (pkg/basictl): TL1 strings (three  *)
(* length forms, 4-byte alignment, canonical-form rules), TL1 fixed-size   *)
(* primitives, Bool tags, TL2 varlen sizes (tolerant reader), TL2 strings  *)
(* and packed bit vectors.                                                 *)
(*                                                                         *)
(* Byte strings are SYMBOLIC streams  [hdr, n, fill, tail] = the bytes of  *)
(* hdr, then n copies of fill, then the bytes of tail, so that lengths     *)
(* around 2^16 and 2^24 cost nothing in TLC; the harness materialises      *)
(* them.  Wire integers that do not fit TLC's 32-bit ints are byte tuples. *)
(***************************************************************************)
EXTENDS Integers, Sequences, FiniteSets, TLC, Json

Byte == 0..255

Stream(h, n, f, t) == [hdr |-> h, n |-> n, fill |-> f, tail |-> t]
Concrete(bs) == Stream(bs, 0, 0, <<>>)
SLen(s) == Len(s.hdr) + s.n + Len(s.tail)
At(s, i) == IF i <= Len(s.hdr) THEN s.hdr[i]
            ELSE IF i <= Len(s.hdr) + s.n THEN s.fill
            ELSE s.tail[i - Len(s.hdr) - s.n]

Zeros(k) == [i \in 1..k |-> 0]
PadLen(p) == (4 - (p % 4)) % 4            \* paddingLen

TinyMax   == 253
MediumMax == 16777215                     \* 2^24 - 1

---------------------------------------------------------------------------
(* TL1 string writer *)
Hdr1(l) == IF l <= TinyMax THEN <<l>>
           ELSE IF l <= MediumMax THEN <<254, l % 256, (l \div 256) % 256, (l \div 65536) % 256>>
           ELSE <<255, l % 256, (l \div 256) % 256, (l \div 65536) % 256, (l \div 16777216) % 256, 0, 0, 0>>
Pad1(l) == IF l <= TinyMax THEN PadLen(l + 1) ELSE PadLen(l)
Enc1Str(l, f) == Stream(Hdr1(l), l, f, Zeros(Pad1(l)))

(* header for a length given as 7 little-endian bytes (lengths >= 2^31) *)
BigIsHuge(lb) == lb[4] # 0 \/ lb[5] # 0 \/ lb[6] # 0 \/ lb[7] # 0
Hdr1Big(lb) == <<255>> \o lb

(* TL1 string reader over a symbolic stream: [ok, err, len, consumed]      *)
(* err in {"eof", "noncanon", "pad"}                                       *)
Fail(e) == [ok |-> FALSE, err |-> e, len |-> 0, consumed |-> 0]
Body1(s, h, l, p) ==       \* h header bytes consumed, l body length, p padding base
  IF SLen(s) < h + l THEN Fail("eof")
  ELSE IF SLen(s) < h + l + PadLen(p) THEN Fail("eof")
  ELSE IF \E i \in 1..PadLen(p) : At(s, h + l + i) # 0 THEN Fail("pad")
  ELSE [ok |-> TRUE, err |-> "", len |-> l, consumed |-> h + l + PadLen(p)]
Dec1Str(s) ==
  IF SLen(s) = 0 THEN Fail("eof")
  ELSE LET b0 == At(s, 1) IN
    IF b0 <= TinyMax THEN Body1(s, 1, b0, b0 + 1)
    ELSE IF b0 = 254 THEN
      IF SLen(s) < 4 THEN Fail("eof")
      ELSE LET l == At(s, 2) + 256 * At(s, 3) + 65536 * At(s, 4) IN
           IF l <= TinyMax THEN Fail("noncanon") ELSE Body1(s, 4, l, l)
    ELSE
      IF SLen(s) < 8 THEN Fail("eof")
      ELSE IF At(s, 6) # 0 \/ At(s, 7) # 0 \/ At(s, 8) # 0 \/ At(s, 5) >= 128
           THEN Fail("eof")       \* >= 2^31 bytes announced: no stream here is that long
      ELSE LET l == At(s, 2) + 256 * At(s, 3) + 65536 * At(s, 4) + 16777216 * At(s, 5) IN
           IF l <= MediumMax THEN Fail("noncanon") ELSE Body1(s, 8, l, l)

---------------------------------------------------------------------------
(* TL2 varlen size *)
Size2(l) == IF l < 254 THEN <<l>>
            ELSE IF l < 254 + 65536 THEN <<254, (l - 254) % 256, (l - 254) \div 256>>
            ELSE <<255, l % 256, (l \div 256) % 256, (l \div 65536) % 256, (l \div 16777216) % 256, 0, 0, 0, 0>>
Size2Len(l) == IF l < 254 THEN 1 ELSE IF l < 254 + 65536 THEN 3 ELSE 9
(* all admissible spellings of a size (the reader is tolerant) *)
Size2Forms(l) == {Size2(l)} \cup {<<255, l % 256, (l \div 256) % 256, (l \div 65536) % 256, (l \div 16777216) % 256, 0, 0, 0, 0>>}
                  \cup (IF l >= 254 /\ l < 254 + 65536 THEN {<<254, (l - 254) % 256, (l - 254) \div 256>>} ELSE {})

(* [ok, err, val, consumed]; err in {"eof","toobig"}; val is exact when < 2^31 *)
Fail2(e) == [ok |-> FALSE, err |-> e, val |-> 0, consumed |-> 0]
ParseSize2(s) ==
  IF SLen(s) = 0 THEN Fail2("eof")
  ELSE LET b0 == At(s, 1) IN
    IF b0 < 254 THEN [ok |-> TRUE, err |-> "", val |-> b0, consumed |-> 1]
    ELSE IF b0 = 254 THEN
      IF SLen(s) < 3 THEN Fail2("eof")
      ELSE [ok |-> TRUE, err |-> "", val |-> 254 + At(s, 2) + 256 * At(s, 3), consumed |-> 3]
    ELSE IF SLen(s) < 9 THEN Fail2("eof")
    ELSE IF At(s, 9) >= 128 THEN Fail2("toobig")           \* > MaxInt64
    ELSE IF At(s, 6) # 0 \/ At(s, 7) # 0 \/ At(s, 8) # 0 \/ At(s, 9) # 0 \/ At(s, 5) >= 128
         THEN [ok |-> TRUE, err |-> "", val |-> -1, consumed |-> 9]   \* -1: value >= 2^31, see bytes
    ELSE [ok |-> TRUE, err |-> "", val |-> At(s, 2) + 256 * At(s, 3) + 65536 * At(s, 4) + 16777216 * At(s, 5), consumed |-> 9]

Enc2Str(l, f) == Stream(Size2(l), l, f, <<>>)
Dec2Str(s) ==
  LET p == ParseSize2(s) IN
  IF ~p.ok THEN [ok |-> FALSE, err |-> p.err, len |-> 0, consumed |-> 0]
  ELSE IF p.val = -1 \/ SLen(s) - p.consumed < p.val THEN [ok |-> FALSE, err |-> "eof", len |-> 0, consumed |-> 0]
  ELSE [ok |-> TRUE, err |-> "", len |-> p.val, consumed |-> p.consumed + p.val]

---------------------------------------------------------------------------
(* TL2 bit vectors: 8 values per byte, least significant bit first *)
Pow2(k) == CASE k = 0 -> 1 [] k = 1 -> 2 [] k = 2 -> 4 [] k = 3 -> 8 [] k = 4 -> 16 [] k = 5 -> 32 [] k = 6 -> 64 [] k = 7 -> 128
BitByte(bits, j) ==       \* j-th output byte (1-based) of a Boolean sequence
  LET RECURSIVE S(_)
      S(k) == IF k > 7 \/ 8 * (j - 1) + k + 1 > Len(bits) THEN 0
              ELSE (IF bits[8 * (j - 1) + k + 1] THEN Pow2(k) ELSE 0) + S(k + 1)
  IN S(0)
BitsEnc(bits) == [j \in 1..((Len(bits) + 7) \div 8) |-> BitByte(bits, j)]
BitsDec(bytes, n) == [i \in 1..n |-> (bytes[((i - 1) \div 8) + 1] \div Pow2((i - 1) % 8)) % 2 = 1]

---------------------------------------------------------------------------
(* fixed-size primitives: a value IS its little-endian byte tuple *)
FixedRead(s, k) == IF SLen(s) < k THEN [ok |-> FALSE, err |-> "eof", consumed |-> 0, val |-> <<>>]
                   ELSE [ok |-> TRUE, err |-> "", consumed |-> k, val |-> [i \in 1..k |-> At(s, i)]]
(* Bool: exactly the two tags *)
ReadBool(s, ftag, ttag) ==
  LET r == FixedRead(s, 4) IN
  IF ~r.ok THEN [ok |-> FALSE, err |-> "eof", val |-> FALSE]
  ELSE IF r.val = ftag THEN [ok |-> TRUE, err |-> "", val |-> FALSE]
  ELSE IF r.val = ttag THEN [ok |-> TRUE, err |-> "", val |-> TRUE]
  ELSE [ok |-> FALSE, err |-> "tag", val |-> FALSE]
=============================================================================
