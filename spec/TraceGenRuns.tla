---------------------------- MODULE TraceGenRuns ----------------------------
(***************************************************************************)
(* Trace validation (code -> spec) for GenRuns: trace.ndjson holds one     *)
(* event per real generator run {set, opts, order, procs, rep, digest};    *)
(* the trace is a behaviour of GenRuns iff every event is a Run step, i.e. *)
(* iff every digest equals the first one recorded for its (set, opts).     *)
(* Acceptance: the unique behaviour reaches the end of the trace           *)
(* (POSTCONDITION on the diameter); on rejection the index of the first    *)
(* event that is not a step of the spec is emitted.                        *)
(***************************************************************************)
EXTENDS GenRuns, Json

Trace == ndJsonDeserialize("trace.ndjson")

VARIABLE i

TraceInit == GRInit /\ i = 1

TraceNext ==
  /\ i <= Len(Trace)
  /\ LET e == Trace[i] IN Run(e.set, e.opts, e.order, e.procs, e.rep, e.digest)
  /\ i' = i + 1

TraceAccepted ==
  LET d == TLCGet("stats").diameter IN
  IF d = Len(Trace) + 1 THEN TRUE
  ELSE /\ PrintT(ToJson(<<"@@", [failed_at |-> d]>>))
       /\ FALSE
=============================================================================
