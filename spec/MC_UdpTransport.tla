-------------------------- MODULE MC_UdpTransport --------------------------
(***************************************************************************)
(* Bounded instance of UdpTransport for TLC: message sizes are chunk       *)
(* counts, the writer's choices are enumerated from the scheduling layer,  *)
(* fairness of every non-fault action.  `cmd' (the simulator command that  *)
(* produced the state) exists only in the simulation wrapper               *)
(* (SimUdpTransport), so that it does not multiply the state space here.   *)
(***************************************************************************)
EXTENDS UdpTransport

CONSTANTS MaxChunks      \* message sizes 1 .. MaxChunks (= number of chunks)

MCChunkCounts(size) == {size}

Min2(a, b) == IF a < b THEN a ELSE b
RECURSIVE SeqSum(_)
SeqSum(s) == IF s = <<>> THEN 0 ELSE s[1] + SeqSum(Tail(s))

\* what goWrite may emit for connection c after its pending events (W):
\* the receiver its acknowledgements (or a resend request), the sender the
\* lowest eligible chunk and up to MaxBurst - 1 following ones
ChoicesFor(t, c, W) ==
  LET p == OtherEnd(t, c) IN
  IF t > p
  THEN {[peer |-> p, id |-> 0, ns |-> <<>>, lo |-> 1, hi |-> 0, nk |-> forceNk[c]]}
  ELSE LET ks == IF W.pend[c] # {} THEN {0} ELSE 1 .. Min2(MaxBurst, Len(queue[c]))
       IN UNION { LET ns   == [j \in 1 .. k |-> queue[c][j].size]
                      n2   == oN[c] + SeqSum(ns)
                      elig == W.pend[c] \cup (oN[c] .. (n2 - 1))
                      l    == SetMin(elig)
                  IN {[peer |-> p, id |-> 0, ns |-> ns, lo |-> l, hi |-> h, nk |-> FALSE] :
                        h \in {x \in elig : x >= l /\ x < l + MaxBurst /\ (l .. x) \subseteq elig}}
                : k \in ks }

SendChoices(t) ==
  LET W == AfterEvents(t) IN
  {NoSend} \cup UNION {ChoicesFor(t, c, W) : c \in {d \in ConnsOf(t) : WantsSend(t, d, W)}}

WriteSome(t) == \E snd \in SendChoices(t) : Write(t, snd)
ReadSome(t)  == \E i \in 0 .. (Len(net[t]) - 1) : Read(t, i)
NewSome      == \E c \in Conns, sz \in 1 .. MaxChunks : NewMessage(c, nmsg + 1, sz)
DupSome(t)   == \E i \in 0 .. (Len(net[t]) - 1) : Dup(t, i)
LossSome(t)  == \E i \in 0 .. (Len(net[t]) - 1) : Loss(t, i)
TimerKinds   == {"resend", "ack", "nack"}

Next ==
  \/ NewSome
  \/ \E t \in Transports : WriteSome(t)
  \/ \E t \in Transports : ReadSome(t)
  \/ \E t \in Transports : EncHdr(t)
  \/ \E k \in TimerKinds, c \in Conns : Timer(k, c)
  \/ \E t \in Transports : DupSome(t)
  \/ \E t \in Transports : LossSome(t)
  \/ Settle

Fairness ==
  /\ \A t \in Transports : WF_vars(WriteSome(t)) /\ WF_vars(ReadSome(t)) /\ WF_vars(EncHdr(t))
  /\ \A k \in TimerKinds, c \in Conns : WF_vars(Timer(k, c))

Spec     == Init /\ [][Next]_vars
FairSpec == Spec /\ Fairness

MonotoneProp == [][Monotone]_vars
\* every submitted message is eventually delivered, memory returns to 0 and
\* every window closes - and it stays so
Liveness  == <>[]Quiescent
Delivery  == \A c \in Conns : \A k \in 1 .. MaxMsgs :
               (Len(queue[c]) + Len(lay[c]) >= k) ~> (Len(dlv[c]) >= k)
=============================================================================
