-------------------------- MODULE TracePacketConn --------------------------
(***************************************************************************)
(* Trace validation (code -> spec) for PacketConn, stateful form: every    *)
(* recorded event of the real PacketConn pair must be a step of the        *)
(* corresponding action of module PacketConn, and the logged observations  *)
(* must equal what the action prescribes.  Scenarios are concatenated; a   *)
(* "start" event (the handshake, closed form) resets the state.            *)
(*   start  enc, ver, nonceEnd, hsEnd                                      *)
(*   write  tp, len, h, flush -> err, wire (bytes on the wire), trailer    *)
(*   rawpad k (raw padding words, plain streams) -> wire                   *)
(*   seal   cuts (every k / explicit list), pos, mask -> total             *)
(*   read   -> pkt(tp, len, h) | err(e), served, eof                       *)
(*   end    revn (bytes B wrote back), pongs                               *)
(* Accepted iff every event was matched: POSTCONDITION on the diameter.    *)
(***************************************************************************)
EXTENDS PacketConn, Json

Trace == ndJsonDeserialize("trace.ndjson")

VARIABLE l

Ev == Trace[l]
SetOf(sq) == {sq[j] : j \in 1..Len(sq)}

TStart ==
  /\ Ev.ev = "start"
  /\ phase \in {"nonce", "done"}
  /\ Restart(Ev.enc, Ev.ver)
  /\ Ev.nonceEnd = WNonce(Ev.ver).n
  /\ Ev.hsEnd = aw'.n

TWrite ==
  /\ Ev.ev = "write"
  /\ bw # W0
  /\ Write(Ev.tp, Ev.len, Ev.h, Ev.flush)
  /\ wres'[Len(wres')].err = Ev.err
  /\ Ev.trailer = aw'.tail
  /\ (Ev.err = "" /\ Ev.flush) => Ev.wire = aw'.n - HsEnd

TRawPad ==
  /\ Ev.ev = "rawpad"
  /\ RawPad(Ev.k)
  /\ Ev.wire = aw'.n - HsEnd

TSeal ==
  /\ Ev.ev = "seal"
  /\ Seal([every |-> Ev.every, at |-> SetOf(Ev.at)], [pos |-> Ev.pos, mask |-> Ev.mask])
  /\ Ev.total = aw'.n

ErrMatches(spec, seen) == spec = seen \/ (spec = "unknown" /\ seen # "")

TRead ==
  /\ Ev.ev = "read"
  /\ Read
  /\ \E r \in {log'[Len(log')]} :
       /\ r.k = Ev.k
       /\ r.k = "pkt" => sent[r.i].tp = Ev.tp /\ sent[r.i].len = Ev.len /\ sent[r.i].h = Ev.h
       /\ r.k = "err" => ErrMatches(r.e, Ev.e)
       /\ r.e # "unknown" => r.need <= Ev.served /\ Ev.served <= r.cend /\ r.eof = Ev.eof

TEnd ==
  /\ Ev.ev = "end"
  /\ phase = "done"
  /\ Ev.revn = bw.n - HsEnd
  /\ Ev.pongs = Len(pongs)
  /\ UNCHANGED vars

Init == InitState /\ l = 1

Next ==
  /\ l <= Len(Trace)
  /\ l' = l + 1
  /\ (TStart \/ TWrite \/ TRawPad \/ TSeal \/ TRead \/ TEnd)

Accepted ==
  \/ TLCGet("stats").diameter = Len(Trace) + 1
  \/ PrintT(ToJson(<<"@@", [matched |-> TLCGet("stats").diameter - 1, events |-> Len(Trace)]>>)) /\ FALSE
=============================================================================
