CONSTANTS
  Sanity = FALSE
  MaxLen = 2
  LongStrings = {}
INIT Init
NEXT Next
INVARIANTS Emit UniqueNames UniqueTags BoxedStartsWithTag
CHECK_DEADLOCK FALSE
