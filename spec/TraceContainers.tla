--------------------------- MODULE TraceContainers ---------------------------
(***************************************************************************)
(* Trace validation (code -> spec) for algo.TreeMap and algo.CircularSlice, *)
(* stateful form: the recorded calls of long random histories must be a     *)
(* behaviour of Containers.  Every event is matched with the action of the  *)
(* same name; results returned by the real call and the scalars logged      *)
(* after it (size, root key / stored root height, read_pos / write_pos /    *)
(* cap) must equal the model's.  Balance of the real tree is judged from    *)
(* the logged true height and largest sibling height difference:           *)
(*    imb <= ImbBound  and  MinNodes(th) <= n  (height stays logarithmic). *)
(* Histories are concatenated with treset / sreset events.                 *)
(***************************************************************************)
EXTENDS Containers, Json

Log == ndJsonDeserialize("trace.ndjson")

CONSTANT MaxKey
TraceKeys == 1..MaxKey      \* cfg: Keys <- TraceKeys

VARIABLES l,      \* index of the next event
          sz      \* number of keys in m (kept incrementally)

Has(e, f) == f \in DOMAIN e

TraceInit == l = 1 /\ sz = 0 /\ TreeInit /\ SliceInit

TreePost(e) ==     \* scalars logged after a mutating call
  /\ e.n = sz'
  /\ e.live = sz'                                   \* allocator: allocated - deallocated = nodes
  /\ e.rk = (IF t' = Nil THEN 0 ELSE K(t'))
  /\ e.rh = (IF t' = Nil THEN -1 ELSE SH(t'))
  /\ e.imb <= ImbBound
  /\ MinNodes(e.th) <= e.n
  /\ (e.n > 0) = (e.th > 0)

AsEntry(x) == IF x = NoEntry THEN <<>> ELSE x

TreeEvent(e) ==
  CASE e.op = "treset" -> t' = Nil /\ m' = [k \in Keys |-> NoVal] /\ sz' = 0
    [] e.op = "set"    -> TSet(e.k, e.v) /\ sz' = sz + (IF m[e.k] = NoVal THEN 1 ELSE 0) /\ TreePost(e)
    [] e.op = "del"    -> TDelete(e.k) /\ sz' = sz - (IF m[e.k] = NoVal THEN 0 ELSE 1) /\ TreePost(e)
    [] e.op = "upd"    -> TUpdate(e.k, e.v) /\ sz' = sz /\ e.found = (m[e.k] # NoVal) /\ TreePost(e)
    [] e.op = "get"    -> /\ UNCHANGED <<t, m, sz>>
                          /\ e.found = (AGet(m, e.k) # NoVal) /\ e.v = AGet(m, e.k) /\ CGet(t, e.k) = e.v
    [] e.op = "front"  -> UNCHANGED <<t, m, sz>> /\ e.e = AsEntry(CFront(t)) /\ (sz = 0) = (e.e = <<>>)
                          /\ (sz > 0 => m[e.e[1]] = e.e[2] /\ \A k \in 1..(e.e[1] - 1) : m[k] = NoVal)
    [] e.op = "back"   -> UNCHANGED <<t, m, sz>> /\ e.e = AsEntry(CBack(t)) /\ (sz = 0) = (e.e = <<>>)
    [] e.op = "empty"  -> UNCHANGED <<t, m, sz>> /\ e.r = (sz = 0)
    [] e.op = "lm1"    -> UNCHANGED <<t, m, sz>> /\ e.r = (sz > 1)

SlicePost(e) ==
  LET s == sl'[e.i] IN
  /\ e.len = Len(qs'[e.i]) /\ e.len = SLen(s)
  /\ e.cap = Cap(s) /\ e.rp = s.rp /\ e.wp = s.wp

SliceEvent(e) ==
  CASE e.op = "sreset"     -> sl' = <<ZeroSlice, ZeroSlice>> /\ qs' = <<<<>>, <<>>>>
    [] e.op = "push"       -> SPush(e.i, e.x) /\ SlicePost(e)
    [] e.op = "pop"        -> /\ e.panic = (qs[e.i] = <<>>)
                              /\ IF e.panic THEN UNCHANGED sliceVars
                                 ELSE SPop(e.i) /\ e.x = qs[e.i][1] /\ e.x = SFront(sl[e.i])
                              /\ SlicePost(e)
    [] e.op = "sfront"     -> UNCHANGED sliceVars /\ e.x = QFront(qs[e.i]) /\ e.x = SFront(sl[e.i])
    [] e.op = "index"      -> /\ UNCHANGED sliceVars
                              /\ e.x = SIndex(sl[e.i], e.p)
                              /\ (e.p >= 0 /\ e.p < Len(qs[e.i]) => e.x = QIndex(qs[e.i], e.p))
                              /\ (e.p < 0 => e.x = Panic)
    [] e.op = "setref"     -> /\ e.done = (e.p < Len(qs[e.i]))
                              /\ IF e.done THEN SSetRef(e.i, e.p, e.x) ELSE UNCHANGED sliceVars
                              /\ SlicePost(e)
    [] e.op = "reserve"    -> SRes(e.i, e.n) /\ SlicePost(e) /\ e.cap >= e.n
    [] e.op = "clear"      -> SClr(e.i) /\ SlicePost(e)
    [] e.op = "slices"     -> /\ UNCHANGED sliceVars
                              /\ e.s1 \o e.s2 = qs[e.i]
                              /\ <<e.s1, e.s2>> = SSlices(sl[e.i])
    [] e.op = "deepassign" -> SDeepAssign(e.i) /\ SlicePost(e) /\ e.alias = FALSE
    [] e.op = "swap"       -> SSwap /\ SlicePost(e)

IsTree(e) == e.op \in {"treset", "set", "del", "upd", "get", "front", "back", "empty", "lm1"}

TraceNext ==
  /\ l <= Len(Log)
  /\ l' = l + 1
  /\ LET e == Log[l] IN
     IF IsTree(e) THEN TreeEvent(e) /\ UNCHANGED sliceVars
     ELSE SliceEvent(e) /\ UNCHANGED <<t, m, sz>>

(* acceptance: the whole trace was consumed; the harness reads how far it got *)
Reached == TLCGet("stats").diameter - 1
TraceAccepted ==
  /\ PrintT(ToJson(<<"@@", [reached |-> Reached, len |-> Len(Log)]>>))
  /\ Reached = Len(Log)

=============================================================================
