----------------------------- MODULE TL2Syntax -----------------------------
(***************************************************************************)
(* Concrete syntax of TL2: source AST, Render (AST x layout -> tokens),    *)
(* the formatter (Print with the default and the canonical options; the    *)
(* line-breaking thresholds are parameters), what a formatted text         *)
(* denotes, the token alphabet for the totality properties.  The lexer is  *)
(* TLSyntax.Lex with lang = 2.                                             *)
(*                                                                         *)
(*  Type2   = [br, ix : Seq(Arg2), el : Seq(Type2), ns, nm, as : Seq(Arg2)] *)
(*            br: bracket type  [ix?] el ;  otherwise  ns.nm<as>            *)
(*  Arg2    = [num : Seq(Num), t : Seq(Type2)]   exactly one non-empty      *)
(*  Field2  = [n, opt, ign, t : Type2, cb, cr]   cb: comment before = the   *)
(*            sequence of its (trimmed) lines; cr: comment to the right     *)
(*  Variant = [nm, al, t : Seq(Type2), fs : Seq(Field2), cb]                *)
(*  Def     = [al, t : Seq(Type2), un, fs, vs]   alias | union | struct     *)
(*  Comb2   = [an, ns, nm, mg, fn, ta : Seq([n, nat]), def : Seq(Def),      *)
(*             args : Seq(Field2), ret : Seq(Def), cb]                      *)
(***************************************************************************)
EXTENDS TLSyntax

CONSTANTS OneLine,      \* formatter: longest one-line declaration (120)
          UnionLine     \* formatter: longest one-line union variant (80)

T2(ns, nm, as)     == [br |-> FALSE, ix |-> <<>>, el |-> <<>>, ns |-> ns, nm |-> nm, as |-> as]
Br2(ix, el)        == [br |-> TRUE, ix |-> ix, el |-> <<el>>, ns |-> "", nm |-> "", as |-> <<>>]
A2T(t)             == [num |-> <<>>, t |-> <<t>>]
A2N(n)             == [num |-> <<n>>, t |-> <<>>]
F2(n, opt, ign, t, cb, cr) == [n |-> n, opt |-> opt, ign |-> ign, t |-> t, cb |-> cb, cr |-> cr]
DefAlias(t)        == [al |-> TRUE, t |-> <<t>>, un |-> FALSE, fs |-> <<>>, vs |-> <<>>]
DefStruct(fs)      == [al |-> FALSE, t |-> <<>>, un |-> FALSE, fs |-> fs, vs |-> <<>>]
DefUnion(vs)       == [al |-> FALSE, t |-> <<>>, un |-> TRUE, fs |-> <<>>, vs |-> vs]
VarFields(nm, fs, cb) == [nm |-> nm, al |-> FALSE, t |-> <<>>, fs |-> fs, cb |-> cb]
VarAlias(nm, t, cb)   == [nm |-> nm, al |-> TRUE, t |-> <<t>>, fs |-> <<>>, cb |-> cb]

---------------------------------------------------------------------------
(* RENDER.  Layout2 = [sep, bar, comma]                                     *)
(*   sep   \in {"min","sp","nl","tab","crlf","mix"}                         *)
(*   bar   \in BOOLEAN   leading | before the first variant of a union      *)
(*                       with several variants (one variant: always)        *)
(*   comma \in BOOLEAN   space after the commas of argument lists           *)
(* Comments belong to the AST: they are written on lines of their own       *)
(* before the item (cb) or after a field up to the end of the line (cr).    *)

NL == K("nl", "\n")
(* the lines of a comment after the first are indented in every layout but the minimal one (the parser keeps  *)
(* the indentation inside the comment text; the neutral AST and the formatter trim every line)                *)
CmtToks(lines, lay) == Flat([i \in 1..Len(lines) |-> (IF i > 1 /\ lay.sep # "min" THEN <<K("TAB", "\t"), K("SP", " ")>> ELSE <<>>)
                                                       \o <<K("cmt", lines[i]), NL>>])
Before(cb, lay) == IF cb = <<>> THEN <<>> ELSE <<NL>> \o CmtToks(cb, lay)
Right(cr)  == IF cr = "" THEN <<>> ELSE <<K("SP", " "), K("cmt", cr), NL>>

Name2Tok(ns, nm) == IF ns = "" /\ nm = "Type" THEN K("Type", "Type") ELSE NameTok(ns, nm)
RECURSIVE Type2Toks(_, _), Args2Toks(_, _, _)
Arg2Toks(a, lay) == IF a.num # <<>> THEN <<K("num", Dec(a.num[1]))>> ELSE Type2Toks(a.t[1], lay)
Args2Toks(as, lay, i) ==
  IF i > Len(as) THEN <<>>
  ELSE (IF i > 1 THEN <<P(",")>> \o (IF lay.comma THEN <<K("SP", " ")>> ELSE <<>>) ELSE <<>>)
       \o Arg2Toks(as[i], lay) \o Args2Toks(as, lay, i + 1)
Type2Toks(t, lay) ==
  IF t.br THEN <<P("[")>> \o (IF t.ix # <<>> THEN Arg2Toks(t.ix[1], lay) ELSE <<>>) \o <<P("]")>> \o Type2Toks(t.el[1], lay)
  ELSE <<Name2Tok(t.ns, t.nm)>> \o (IF t.as = <<>> THEN <<>> ELSE <<P("<")>> \o Args2Toks(t.as, lay, 1) \o <<P(">")>>)

FieldName2Tok(f) == IF f.ign THEN (IF f.n = "_" THEN K("_", "_") ELSE K("dep", f.n)) ELSE VarTok(f.n)
Field2Toks(f, lay) ==
  Before(f.cb, lay)
  \o (IF f.n # "" THEN <<FieldName2Tok(f)>> \o (IF f.opt THEN <<P("?")>> ELSE <<>>) \o <<P(":")>> ELSE <<>>)
  \o Type2Toks(f.t, lay) \o Right(f.cr)
Fields2Toks(fs, lay) == Flat([i \in 1..Len(fs) |-> Field2Toks(fs[i], lay)])

Variant2Toks(v, lay, withBar) ==
  Before(v.cb, lay) \o (IF withBar THEN <<P("|")>> ELSE <<>>)
  \o <<IF v.nm = "Type" THEN K("Type", "Type") ELSE VarTok(v.nm)>>
  \o (IF v.al THEN Type2Toks(v.t[1], lay) ELSE Fields2Toks(v.fs, lay))
Def2Toks(d, lay) ==
  IF d.al THEN Type2Toks(d.t[1], lay)
  ELSE IF d.un THEN Flat([i \in 1..Len(d.vs) |-> Variant2Toks(d.vs[i], lay, i > 1 \/ lay.bar \/ Len(d.vs) = 1)])
  ELSE Fields2Toks(d.fs, lay)

(* the result of a function that is a single anonymous field is written as a bare type reference *)
Comb2Toks(c, lay) ==
  CmtToks(c.cb, lay)
  \o [i \in 1..Len(c.an) |-> K("ann", "@" \o c.an[i])]
  \o <<NameTok(c.ns, c.nm)>>
  \o (IF c.mg # "" THEN <<K("tag", "#" \o c.mg)>> ELSE <<>>)
  \o (IF c.fn
      THEN Fields2Toks(c.args, lay) \o <<P("=>")>>
           \o (IF c.ret[1].al THEN <<K("<=>", "<=>")>> ELSE <<>>) \o Def2Toks(c.ret[1], lay)
      ELSE (IF c.ta = <<>> THEN <<>>
            ELSE <<P("<")>>
                 \o Flat([i \in 1..Len(c.ta) |-> (IF i > 1 THEN <<P(",")>> ELSE <<>>)
                                                   \o <<VarTok(c.ta[i].n), P(":"), IF c.ta[i].nat THEN K("#", "#") ELSE K("Type", "Type")>>])
                 \o <<P(">")>>)
           \o <<IF c.def[1].al THEN K("<=>", "<=>") ELSE P("=")>> \o Def2Toks(c.def[1], lay))
  \o <<P(";")>>
File2Toks(cs, lay) == Flat([i \in 1..Len(cs) |-> Comb2Toks(cs[i], lay) \o (IF i < Len(cs) /\ cs[i + 1].cb # <<>> THEN <<NL>> ELSE <<>>)])

WordEnd2   == WordEnd \cup {"dep", "Type", "_"}
WordStart2 == WordStart \cup {"dep", "Type", "_"}
Fixed2(t) == t.k \in {"nl", "cmt", "SP", "TAB"}            \* layout tokens that belong to the rendering itself
NeedSep2(a, b) == a.k \in WordEnd2 /\ b.k \in WordStart2
(* no separator may follow the colon of a template argument declaration (the category is read without skipping *)
(* blanks); a colon is followed by # or Type only there                                                        *)
SepFor2(lay, i, a, b) ==
  IF Fixed2(a) \/ Fixed2(b) THEN <<>>
  ELSE IF a.k = ":" /\ b.k \in {"#", "Type"} THEN <<>>
  ELSE CASE lay.sep = "min" -> IF NeedSep2(a, b) THEN SepTok("sp") ELSE <<>>
         [] lay.sep = "mix" -> IF NeedSep2(a, b) \/ i % 3 # 0 THEN SepTok(<<"sp", "nl", "tab", "sp2", "crlf", "sp", "nl">>[(i % 7) + 1]) ELSE <<>>
         [] OTHER -> SepTok(lay.sep)
RECURSIVE WithSeps2R(_, _, _)
WithSeps2R(sig, lay, i) ==
  IF i > Len(sig) THEN <<>>
  ELSE IF i = Len(sig) THEN <<sig[i]>>
  ELSE <<sig[i]>> \o SepFor2(lay, i, sig[i], sig[i + 1]) \o WithSeps2R(sig, lay, i + 1)
Render2(cs, lay) == WithSeps2R(File2Toks(cs, lay), lay, 1)

(* What the parser records (modelled as the code has it): a comment placed between => and the first field or *)
(* variant of a function result is skipped, not attached to that item.                                      *)
DropFirstCb(d) == IF d.un THEN (IF d.vs # <<>> THEN [d EXCEPT !.vs[1].cb = <<>>] ELSE d)
                  ELSE IF d.fs # <<>> THEN [d EXCEPT !.fs[1].cb = <<>>] ELSE d
ParsedAs(c) == IF c.fn /\ ~c.ret[1].al THEN [c EXCEPT !.ret = <<DropFirstCb(c.ret[1])>>] ELSE c

---------------------------------------------------------------------------
(* THE FORMATTER (tlast_tl2_view.go).  Options = [ic, one, uni]: ignore     *)
(* comments, longest one-line declaration, longest one-line union variant. *)
(* Lengths are byte counts of the text written so far (a line break and a  *)
(* tab count one each), exactly as the formatter measures them.            *)
DefaultOpts   == [ic |-> FALSE, one |-> OneLine, uni |-> UnionLine]
CanonicalOpts == [ic |-> TRUE, one |-> 2147473647, uni |-> 2147473647]

RECURSIVE FType2(_)
FArg2(a) == IF a.num # <<>> THEN Dec(a.num[1]) ELSE FType2(a.t[1])
FType2(t) == IF t.br THEN "[" \o (IF t.ix # <<>> THEN FArg2(t.ix[1]) ELSE "") \o "]" \o FType2(t.el[1])
             ELSE QName(t.ns, t.nm)
                  \o (IF t.as = <<>> THEN "" ELSE "<" \o Join([i \in 1..Len(t.as) |-> FArg2(t.as[i])], ",") \o ">")
FField2(f) == (IF f.n # "" THEN (IF f.ign THEN "_" ELSE f.n) \o (IF f.opt THEN "?" ELSE "") \o ":" ELSE "") \o FType2(f.t)

CmtWith(cb, sep) == Join([i \in 1..Len(cb) |-> cb[i] \o sep], "")   \* every line followed by sep
VariantHasComment(v) == v.cb # <<>> \/ (~v.al /\ \E i \in 1..Len(v.fs) : v.fs[i].cb # <<>>)

FVarFields(v, o, sep) ==
  Join([i \in 1..Len(v.fs) |-> sep \o (IF ~o.ic THEN CmtWith(v.fs[i].cb, sep) ELSE "") \o FField2(v.fs[i])], "")
(* one variant; prefix = length of the separator written before it *)
FVariant(v, o, prefix) ==
  IF v.al THEN v.nm \o " " \o FType2(v.t[1])
  ELSE IF ~o.ic /\ VariantHasComment(v) THEN v.nm \o FVarFields(v, o, "\n\t\t")
  ELSE IF prefix + Len(v.nm) + Len(FVarFields(v, o, " ")) > o.uni THEN v.nm \o FVarFields(v, o, "\n\t\t")
  ELSE v.nm \o FVarFields(v, o, " ")

(* printWithNewLineOption: returns [s, nl] *)
FDefWith(d, o, force, isRet, oneVariantBar) ==
  LET head == IF ~isRet THEN (IF d.al THEN " <=> " ELSE " = ") ELSE (IF d.al THEN "<=>" ELSE "") IN
  IF d.al THEN [s |-> head \o FType2(d.t[1]), nl |-> force]
  ELSE IF d.un THEN
    LET hasC == ~o.ic /\ \E i \in 1..Len(d.vs) : VariantHasComment(d.vs[i])
        f == force \/ hasC
        sep == IF f THEN "\n\t| " ELSE " | "
        one(i) == (IF ~o.ic /\ d.vs[i].cb # <<>>
                   THEN "\n\t" \o Join(d.vs[i].cb, "\n\t") ELSE "")
                  \o (IF i # 1 \/ f THEN sep ELSE IF oneVariantBar /\ Len(d.vs) = 1 THEN "| " ELSE "")
                  \o FVariant(d.vs[i], o, Len(sep))
    IN [s |-> head \o Join([i \in 1..Len(d.vs) |-> one(i)], ""), nl |-> f]
  ELSE
    LET hasC == ~o.ic /\ \E i \in 1..Len(d.fs) : d.fs[i].cb # <<>>
        f == force \/ hasC
        sep == IF f THEN "\n\t" ELSE " "
        one(i) == (IF i # 1 \/ f THEN sep ELSE "")
                  \o (IF ~o.ic THEN CmtWith(d.fs[i].cb, sep) ELSE "")
                  \o FField2(d.fs[i])
    IN [s |-> head \o Join([i \in 1..Len(d.fs) |-> one(i)], ""), nl |-> f]
(* TL2TypeDefinition.print *)
FDef(d, o, prefix, isRet, bar) ==
  LET try == FDefWith(d, o, FALSE, isRet, bar)
      nl  == try.nl \/ Len(try.s) + prefix > o.one
  IN [s |-> FDefWith(d, o, nl, isRet, bar).s, nl |-> nl]

FHead(c) == QName(c.ns, c.nm) \o (IF c.mg # "" THEN "#" \o c.mg ELSE "")
FFuncWith(c, o, sep, prefix, bar) ==
  LET pre == FHead(c) \o Join([i \in 1..Len(c.args) |-> sep \o FField2(c.args[i])], "") \o sep \o "=> "
      r == FDef(c.ret[1], o, Len(pre) + prefix, TRUE, bar)
  IN [s |-> pre \o r.s, nl |-> r.nl \/ Len(pre \o r.s) + prefix > o.one]
FFunc(c, o, prefix, bar) == IF FFuncWith(c, o, " ", prefix, bar).nl THEN FFuncWith(c, o, "\n\t", prefix, bar).s
                            ELSE FFuncWith(c, o, " ", prefix, bar).s
FTypeDecl(c, o, prefix, bar) ==
  LET pre == FHead(c)
             \o (IF c.ta = <<>> THEN ""
                 ELSE "<" \o Join([i \in 1..Len(c.ta) |-> c.ta[i].n \o ":" \o (IF c.ta[i].nat THEN "#" ELSE "Type")], ",") \o ">")
  IN pre \o FDef(c.def[1], o, prefix + Len(pre), FALSE, bar).s
(* bar = TRUE: a union with a single variant keeps its vertical bar (required by the grammar: this is the        *)
(* formatter of the specification); bar = FALSE: the bar is written only when the union is broken into lines     *)
(* (used to classify a known deviation only)                                                                   *)
FCombV(c, o, bar) ==
  LET cmt  == IF ~o.ic THEN CmtWith(c.cb, "\n") ELSE ""
      anns == Join([i \in 1..Len(c.an) |-> "@" \o c.an[i] \o " "], "")
  IN cmt \o anns \o (IF c.fn THEN FFunc(c, o, Len(anns), bar) ELSE FTypeDecl(c, o, Len(anns), bar)) \o ";"
FComb(c, o) == FCombV(c, o, TRUE)
FFileV(cs, o, bar) == Join([i \in 1..Len(cs) |-> FCombV(cs[i], o, bar) \o "\n"], "")
FFile(cs, o) == FFileV(cs, o, TRUE)

(* what the formatted text denotes: names of ignored fields become "_", comments to the right are dropped, *)
(* with the canonical options all comments are dropped                                                      *)
NormField(f, ic) == [f EXCEPT !.n = IF f.ign THEN "_" ELSE f.n, !.cr = "", !.cb = IF ic THEN <<>> ELSE f.cb]
NormFields(fs, ic) == [i \in 1..Len(fs) |-> NormField(fs[i], ic)]
NormDef(d, ic) == [d EXCEPT !.fs = NormFields(d.fs, ic),
                            !.vs = [i \in 1..Len(d.vs) |-> [d.vs[i] EXCEPT !.fs = NormFields(d.vs[i].fs, ic), !.cb = IF ic THEN <<>> ELSE d.vs[i].cb]]]
(* arguments of a function are printed without their comments *)
Denotes2(c, ic) == [c EXCEPT !.cb = IF ic THEN <<>> ELSE c.cb,
                             !.args = NormFields(c.args, TRUE),
                             !.def = [i \in 1..Len(c.def) |-> NormDef(c.def[i], ic)],
                             !.ret = [i \in 1..Len(c.ret) |-> NormDef(c.ret[i], ic)]]

---------------------------------------------------------------------------
(* token alphabet of TL2 for the totality properties *)
Alphabet2 ==
  { K("lc", "a"), K("lc", "x1"), K("uc", "A"), K("Type", "Type"), K("lcns", "a.b"), K("ucns", "a.B"), K("dep", "_a"), K("_", "_"),
    K("num", "0"), K("num", "1"), K("num", "4294967295"), K("num", "4294967296"),
    K("num", "18446744073709551615"), K("num", "18446744073709551616"),
    K("#", "#"), K("tag", "#00000000"), K("tag", "#1234abcd"), K("tag", "#ffffffff"), K("ann", "@a"),
    P("["), P("]"), P("<"), P(">"), P(":"), P(";"), P("."), P(","), P("="), P("=>"), K("<=>", "<=>"), P("?"), P("|"), P("-"),
    P("("), P(")"), P("{"), P("}"), P("%"), P("*"), P("+"), P("!"),
    K("sec_t", "---types---"), K("sec_f", "---functions---"),
    K("nl", "\n"), K("cmt", "//c"),
    K("bad3", "A.b"), K("bad4", "#123"), K("bad2", "@A"), K("bad2", "0a"), K("bad1", "$"),
    K("bad1", "/"), K("bad2", "/*"), K("badcr", "\r") }
Punct2Toks == {t \in Alphabet2 : t.k = t.s}
Core2 == {t \in Punct2Toks : t.k \notin {"(", ")", "{", "}", "*", "+"}}
         \cup { K("lc", "a"), K("uc", "A"), K("Type", "Type"), K("lcns", "a.b"), K("dep", "_a"), K("_", "_"), K("num", "1"), K("#", "#"),
                K("tag", "#1234abcd"), K("ann", "@a"), K("<=>", "<=>"), K("nl", "\n"), K("cmt", "//c"), K("bad1", "$"), K("num", "4294967296") }
=============================================================================
