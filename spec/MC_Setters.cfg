CONSTANTS
  Sanity = FALSE
  MaxLen = 2
  LongStrings = {}
  K = @K@
INIT Init
NEXT Next
INVARIANTS Emit Effect
PROPERTY FrameOther
CHECK_DEADLOCK FALSE
