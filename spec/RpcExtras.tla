------------------------------ MODULE RpcExtras ------------------------------
(***************************************************************************)
(* Request / response extras and error code / description of one RPC round *)
(* trip (pkg/rpc: client.go fillRequestTimeout + prepareCall,              *)
(* rpc_format.go preparePacket / ParseInvokeReq / prepareResponseBody /    *)
(* parseResponseExtra), for both body formats (TL1, and TL2 announced by   *)
(* the rpcTL2Marker wrapper that Request.BodyFormatTL2 selects).           *)
(*                                                                         *)
(* An extra is a record [mask, val]: mask = set of bit numbers of `flags`  *)
(* (the TL field mask), val = content of the Go struct's fields, keyed by  *)
(* the bit that guards them.  Field contents are symbolic atoms (the       *)
(* harness materialises "max64", "s300", ...); custom_timeout_ms is a real *)
(* integer because the client computes with it.  "Transmitted unchanged"   *)
(* means: the receiver sees the same mask, the same atom for every field   *)
(* whose bit is in the mask, and the zero atom for the others.             *)
(*                                                                         *)
(* The code's deviations from plain identity are modelled as it has them:  *)
(*   ClientNorm   the client rewrites custom_timeout_ms (drops an explicit *)
(*                0, replaces it by the context deadline when that is      *)
(*                sooner) and rejects some extras outright;                *)
(*   RespFilter   the server sends only the response-extra bits that are   *)
(*                set in the REQUEST's flags (raw mask, unknown bits       *)
(*                included);                                               *)
(*   ErrNorm      error code 0 becomes -4000 (unknown); a non-rpc error    *)
(*                becomes -4000 + its text; ErrNoHandler and               *)
(*                context.DeadlineExceeded get their own codes and texts.  *)
(***************************************************************************)
EXTENDS Integers, Sequences, FiniteSets, TLC, Json

CONSTANTS MaxEdits,      \* every case is at most MaxEdits edits away from a base case
          CtxMs          \* the context deadline used when a case has one (ms)

(* ---- request extra: rpcInvokeReqExtra ---- *)
ReqFlagBits == {0, 1, 2, 3, 4, 6, 7, 8, 14, 27}                 \* fields of type %True: the bit is the value
ReqValBits  == {9, 15, 16, 18, 19, 20, 21, 23, 25, 26, 28, 29, 30}
UnknownBits == {5, 17}                                           \* no field of the request extra: travel in the mask only
ReqBits == ReqFlagBits \cup ReqValBits \cup UnknownBits
TimeoutBit == 23
NoResultBit == 7

LongAtoms == {"0", "1", "-1", "max64", "min64"}
StrAtoms  == {"", "a", "s300", "utf8", "nul"}
ReqVals(b) ==
  CASE b \in {9, 16, 21} -> LongAtoms
    [] b = 15 -> {"empty", "d1", "d2"}
    [] b = 18 -> {"empty", "vs1", "vs2"}
    [] b = 19 -> {"empty", "vl1", "vl2"}
    [] b \in {20, 30} -> StrAtoms
    [] b = 23 -> {0, -5, 5000, 40000, 2147483647}   \* (a 1 ms timeout really expires: not a transmission case)
    [] b = 25 -> {0, 1, -1, 2147483647, -2147483647 - 1}
    [] b = 26 -> {"0", "1.5", "-0.0", "nan", "inf"}
    [] b = 28 -> {"zero", "prepare1", "commit1"}
    [] b = 29 -> {"zero", "tc1", "tc2"}
ReqZero(b) ==
  CASE b \in {9, 16, 21, 26} -> "0"
    [] b \in {15, 18, 19} -> "empty"
    [] b \in {20, 30} -> ""
    [] b \in {23, 25} -> 0
    [] b \in {28, 29} -> "zero"
ReqRich(b) ==
  CASE b = 9 -> "max64" [] b = 16 -> "min64" [] b = 21 -> "-1"
    [] b = 15 -> "d2" [] b = 18 -> "vs2" [] b = 19 -> "vl2"
    [] b = 20 -> "s300" [] b = 30 -> "utf8"
    [] b = 23 -> 5000 [] b = 25 -> 2147483647 [] b = 26 -> "1.5"
    [] b = 28 -> "commit1" [] b = 29 -> "tc2"

(* ---- response extra: rpcReqResultExtra (bit 3 and bit 27 guard two fields each) ---- *)
RespFields == {"binlog_pos", "binlog_time", "engine_pid", "request_size", "response_size", "failed_subqueries",
               "compression_version", "stats", "shards_binlog_pos", "epoch_number", "view_number"}
RespBitOf(f) ==
  CASE f = "binlog_pos" -> 0 [] f = "binlog_time" -> 1 [] f = "engine_pid" -> 2
    [] f \in {"request_size", "response_size"} -> 3 [] f = "failed_subqueries" -> 4
    [] f = "compression_version" -> 5 [] f = "stats" -> 6 [] f = "shards_binlog_pos" -> 14
    [] f \in {"epoch_number", "view_number"} -> 27
RespBits == {0, 1, 2, 3, 4, 5, 6, 14, 27} \cup {9}                \* 9: no field in the response extra
RespVals(f) ==
  CASE f \in {"binlog_pos", "binlog_time", "epoch_number", "view_number"} -> LongAtoms
    [] f = "engine_pid" -> {"pid0", "pid1"}
    [] f \in {"request_size", "response_size", "failed_subqueries", "compression_version"} -> {0, 7, -1, 2147483647}
    [] f = "stats" -> {"empty", "st1", "st2"}
    [] f = "shards_binlog_pos" -> {"empty", "d1", "d2"}
RespZero(f) ==
  CASE f \in {"binlog_pos", "binlog_time", "epoch_number", "view_number"} -> "0"
    [] f = "engine_pid" -> "pid0"
    [] f \in {"request_size", "response_size", "failed_subqueries", "compression_version"} -> 0
    [] f \in {"stats", "shards_binlog_pos"} -> "empty"
RespRich(f) ==
  CASE f = "binlog_pos" -> "max64" [] f = "binlog_time" -> "min64" [] f = "epoch_number" -> "-1" [] f = "view_number" -> "1"
    [] f = "engine_pid" -> "pid1"
    [] f = "request_size" -> 7 [] f = "response_size" -> 2147483647 [] f = "failed_subqueries" -> -1 [] f = "compression_version" -> 7
    [] f = "stats" -> "st2" [] f = "shards_binlog_pos" -> "d2"

(* ---- handler outcome ---- *)
ErrCodes == {0, -1, 1, -5000, -4000, -3000, 2147483647, -2147483647 - 1}
Outcomes == {[k |-> "ok", code |-> 0, desc |-> ""]}
            \cup {[k |-> "rpcerr", code |-> c, desc |-> "a"] : c \in ErrCodes}
            \cup {[k |-> "rpcerr", code |-> -5000, desc |-> d] : d \in StrAtoms}
            \cup {[k |-> "err", code |-> 0, desc |-> d] : d \in StrAtoms}
            \cup {[k |-> "nohandler", code |-> 0, desc |-> ""], [k |-> "deadline", code |-> 0, desc |-> ""]}
Actors == {"0", "1", "-1", "max64", "min64"}

---------------------------------------------------------------------------
(* ============================ the code ================================ *)

(* client.go fillRequestTimeout + prepareCall.  ctx: TRUE = the context    *)
(* has a deadline CtxMs from now.  Result: [rej, mask, val, tmo] where tmo *)
(* says where the transmitted custom_timeout_ms comes from: "none",        *)
(* "custom" (the caller's value) or "ctx" (derived from the deadline: some *)
(* value in 1..CtxMs, the call having started a moment ago).               *)
ClientNorm(x, ctx) ==
  LET t == x.val[TimeoutBit]
      set == TimeoutBit \in x.mask IN
  IF ~set /\ t # 0 THEN [rej |-> "unset_timeout", mask |-> {}, val |-> x.val, tmo |-> "none"]
  ELSE IF t < 0 THEN [rej |-> "negative_timeout", mask |-> {}, val |-> x.val, tmo |-> "none"]
  ELSE LET m1 == IF t = 0 THEN x.mask \ {TimeoutBit} ELSE x.mask     \* explicit infinite timeout is not sent
           useCtx == ctx /\ (t = 0 \/ CtxMs <= t)                     \* toMs <= CtxMs; cases keep t away from CtxMs
           m2 == IF useCtx THEN m1 \cup {TimeoutBit} ELSE m1
           tmo == IF useCtx THEN "ctx" ELSE IF TimeoutBit \in m1 THEN "custom" ELSE "none"
       IN IF NoResultBit \in m2 THEN [rej |-> "no_result", mask |-> {}, val |-> x.val, tmo |-> "none"]
          ELSE [rej |-> "", mask |-> m2, val |-> x.val, tmo |-> tmo]

(* preparePacket + ParseInvokeReq: what the handler sees in hctx.RequestExtra *)
ReqWire(mask, val) == [b \in ReqValBits |-> IF b \in mask THEN val[b] ELSE ReqZero(b)]

(* prepareResponseBody: ResponseExtra.Flags &= request flags; then the TL1  *)
(* codec of rpcReqResultExtra; parseResponseExtra on the client             *)
RespFilter(ymask, reqMask) == ymask \cap reqMask
RespWire(mask, val) == [f \in RespFields |-> IF RespBitOf(f) \in mask THEN val[f] ELSE RespZero(f)]

(* prepareResponseBody: error normalisation *)
ErrNorm(o) ==
  CASE o.k = "ok" -> [code |-> 0, desc |-> "", kind |-> "none"]
    [] o.k = "rpcerr" -> [code |-> IF o.code = 0 THEN -4000 ELSE o.code, desc |-> o.desc, kind |-> "exact"]
    [] o.k = "err" -> [code |-> -4000, desc |-> o.desc, kind |-> "exact"]
    [] o.k = "nohandler" -> [code |-> -2000, desc |-> "nohandler", kind |-> "nohandler"]
    [] o.k = "deadline" -> [code |-> -3000, desc |-> "deadline", kind |-> "deadline"]

(* the whole round trip *)
Expect(tc) ==
  LET n == ClientNorm(tc.req, tc.ctx) IN
  IF n.rej # "" THEN [rej |-> n.rej]
  ELSE LET rm == RespFilter(tc.resp.mask, n.mask) IN
       [rej |-> "",
        srvMask |-> n.mask, srvVal |-> ReqWire(n.mask, n.val), srvTmo |-> n.tmo,
        srvActor |-> tc.actor, srvTL2 |-> tc.tl2,
        cliMask |-> rm, cliVal |-> RespWire(rm, tc.resp.val), cliTL2 |-> tc.tl2,
        err |-> ErrNorm(tc.out), bodyBack |-> tc.out.k = "ok"]

---------------------------------------------------------------------------
(* ====================== the case space (for TLC) ====================== *)
VARIABLES tc, edits

EmptyReq == [mask |-> {}, val |-> [b \in ReqValBits |-> ReqZero(b)]]
RichReq  == [mask |-> ReqBits \ {NoResultBit}, val |-> [b \in ReqValBits |-> ReqRich(b)]]
EmptyResp == [mask |-> {}, val |-> [f \in RespFields |-> RespZero(f)]]
RichResp  == [mask |-> RespBits, val |-> [f \in RespFields |-> RespRich(f)]]
Ok == [k |-> "ok", code |-> 0, desc |-> ""]

Base == { [req |-> r, resp |-> y, out |-> Ok, actor |-> a, tl2 |-> t, ctx |-> FALSE] :
            r \in {EmptyReq, RichReq}, y \in {EmptyResp, RichResp}, a \in {"0", "max64"}, t \in BOOLEAN }

Init == tc \in Base /\ edits = 0

Edit(new) == edits < MaxEdits /\ tc' = new /\ tc' # tc /\ edits' = edits + 1

Next ==
  \/ \E b \in ReqBits : Edit([tc EXCEPT !.req.mask = IF b \in @ THEN @ \ {b} ELSE @ \cup {b}])
  \/ \E b \in ReqValBits : \E v \in ReqVals(b) : Edit([tc EXCEPT !.req.val[b] = v])
  \/ \E b \in RespBits : Edit([tc EXCEPT !.resp.mask = IF b \in @ THEN @ \ {b} ELSE @ \cup {b}])
  \/ \E f \in RespFields : \E v \in RespVals(f) : Edit([tc EXCEPT !.resp.val[f] = v])
  \/ \E o \in Outcomes : Edit([tc EXCEPT !.out = o])
  \/ \E a \in Actors : Edit([tc EXCEPT !.actor = a])
  \/ Edit([tc EXCEPT !.ctx = ~@])

Emit == PrintT(ToJson(<<"@@", [tc |-> tc, exp |-> Expect(tc)]>>))

(* ---- design-level properties of the rules above ---- *)
(* whatever the client accepts reaches the handler unchanged, except custom_timeout_ms *)
ReqUnchanged ==
  LET e == Expect(tc) IN
  e.rej = "" => /\ e.srvMask \ {TimeoutBit} = tc.req.mask \ {TimeoutBit}
                /\ \A b \in ReqValBits \ {TimeoutBit} : b \in tc.req.mask => e.srvVal[b] = tc.req.val[b]
                /\ \A b \in ReqValBits : b \notin e.srvMask => e.srvVal[b] = ReqZero(b)
                /\ e.srvActor = tc.actor
(* the timeout the handler works with is never later than what the caller asked for *)
TimeoutNeverLater ==
  LET e == Expect(tc) IN
  e.rej = "" =>
    /\ (tc.ctx => e.srvTmo \in {"ctx", "custom"})
    /\ (e.srvTmo = "custom" => /\ tc.req.val[TimeoutBit] > 0 /\ e.srvVal[TimeoutBit] = tc.req.val[TimeoutBit]
                               /\ (tc.ctx => tc.req.val[TimeoutBit] < CtxMs))
    /\ (e.srvTmo = "none" => ~tc.ctx /\ (TimeoutBit \notin tc.req.mask \/ tc.req.val[TimeoutBit] = 0))
(* the client receives exactly the response-extra bits it asked for and the handler set *)
RespFiltered ==
  LET e == Expect(tc) IN
  e.rej = "" => /\ e.cliMask = tc.resp.mask \cap e.srvMask
                /\ \A f \in RespFields : e.cliVal[f] = IF RespBitOf(f) \in e.cliMask THEN tc.resp.val[f] ELSE RespZero(f)
(* an error never arrives as success and keeps its description *)
ErrorKept ==
  LET e == Expect(tc) IN
  e.rej = "" /\ tc.out.k # "ok" => e.err.code # 0 /\ (tc.out.k \in {"rpcerr", "err"} => e.err.desc = tc.out.desc)
FormatIndependent ==
  LET e == Expect(tc) e2 == Expect([tc EXCEPT !.tl2 = ~@]) IN
  e.rej = "" => /\ e2.rej = "" /\ e.srvMask = e2.srvMask /\ e.srvVal = e2.srvVal /\ e.cliMask = e2.cliMask
                /\ e.cliVal = e2.cliVal /\ e.err = e2.err
=============================================================================
