------------------------------ MODULE RpcLimits ------------------------------
(***************************************************************************)
(* The two admission rules of the RPC server, as pure operators shared by  *)
(* RpcCalls (actions AcquireMem, GetWorker, RecvHdr) and by the projection *)
(* TraceRpcLimits that validates recorded bursts:                          *)
(*   MemAdmits        semaphore.TryAcquire / Acquire on reqMemSem          *)
(*                    (server.go acquireRequestSema)                       *)
(*   WorkerAvailable  workerPool.Get (server_workerpool.go)                *)
(*   TakeOf           server.go requestBufTake: every packet takes         *)
(*                    max(packet length, RequestBufSize)                   *)
(***************************************************************************)
EXTENDS Integers

MemAdmits(held, n, limit) == held + n <= limit
WorkerAvailable(created, free, maxWorkers) == free > 0 \/ created < maxWorkers
TakeOf(len, bufSize) == IF len > bufSize THEN len ELSE bufSize
=============================================================================
