------------------------------ MODULE RpcLimits ------------------------------
(***************************************************************************)
(* The two admission rules of the RPC server, as pure operators shared by  *)
(* RpcCalls (actions AcquireMem, GetWorker, RecvHdr) and by the projection *)
(* TraceRpcLimits that validates recorded bursts:                          *)
(*   MemAdmits        semaphore.TryAcquire / Acquire on reqMemSem          *)
(*                    (server.go acquireRequestSema)                       *)
(*   WorkerAvailable  workerPool.Get (server_workerpool.go)                *)
(*   TakeOf           server.go requestBufTake: every packet takes         *)
(*                    max(packet length, RequestBufSize)                   *)
(*   HeldAfterAbort   a wait for request memory that is aborted (the       *)
(*                    connection's context was cancelled) never acquired   *)
(*                    anything: nothing is given back, the accounted       *)
(*                    memory is unchanged (server.go receiveLoopImpl sets  *)
(*                    hctx.reqTaken only after acquireRequestSema)         *)
(***************************************************************************)
EXTENDS Integers

MemAdmits(held, n, limit) == held + n <= limit
WorkerAvailable(created, free, maxWorkers) == free > 0 \/ created < maxWorkers
TakeOf(len, bufSize) == IF len > bufSize THEN len ELSE bufSize
HeldAfterAbort(held, n) == held
=============================================================================
