--------------------------- MODULE TraceRpcCalls ---------------------------
(***************************************************************************)
(* Trace validation (code -> spec) for the RPC client and server.          *)
(*                                                                         *)
(* trace.ndjson holds the events recorded by the driver at causally        *)
(* ordered API boundaries (one recorder mutex assigns the order):          *)
(*   start(id, tmo, ff)   before Client.Do            -> Invoke            *)
(*   cancel(id)           before the ctx's cancel()   -> CtxCancel         *)
(*   enter(id)            first statement of the handler -> HandlerEnter   *)
(*   exit(id, out)        last statement of the handler  -> HandlerExit    *)
(*   ret(id, res, got)    after Client.Do returned    -> Return            *)
(*                        (got = request id the payload was derived from)  *)
(*   close(side) / closed(side)   before / after Close() -> Cli/SrvClose.. *)
(*   shutdown             before Server.Shutdown()    -> SrvShutdown       *)
(*   cut(cl), proxy(cl, mode)     fault injection by the driver's proxy    *)
(*   end                  end of a scenario: every started call returned   *)
(*   reset                next scenario starts from Init                   *)
(* Everything else the implementation does (SetupCall, SendFromWriteQ,     *)
(* receive loops, worker pool, FinishCall, MassCancel, the moment a Close  *)
(* or a cut takes effect ...) is unobservable and is matched by the silent *)
(* steps `Internal` of RpcCalls, at most MaxSilent of them between two     *)
(* consumed events.  The trace is accepted iff some interleaving of silent *)
(* steps explains every event in order.  TLC runs with one worker and the  *)
(* depth-first queue (-Dtlc2.tool.queue.IStateQueue=StateDeque): the       *)
(* search stops at the first complete explanation (TLCSet("exit", TRUE));  *)
(* if there is none, the whole search space is exhausted and the           *)
(* POSTCONDITION reports the high-water mark (TLCSet/TLCGet register 1) =  *)
(* number of events of the longest explained prefix.                       *)
(* `sil` is hidden by VIEW; MaxSilent is far above what one scenario needs *)
(* (it only guards against run-away searches).                             *)
(***************************************************************************)
EXTENDS RpcCalls, Json

CONSTANTS MaxSilent

Trace == ndJsonDeserialize("trace.ndjson")

TOwnerOf(id) == IF id <= 3 THEN "c1" ELSE "c2"
TTake(id) == 1

VARIABLES l,    \* index of the next event to consume
          sil   \* silent steps since the last consumed event (hidden by VIEW)

tvars == <<vars, l, sil>>
TView == <<vars, l>>

TInit == Init /\ l = 1 /\ sil = 0 /\ TLCSet(1, 0)

Mark(n) == TLCSet(1, IF n > TLCGet(1) THEN n ELSE TLCGet(1))

Reset ==
  /\ call' = [id \in CallIds |-> InitCall]
  /\ writeQ' = [c \in Clients |-> <<>>]
  /\ inFlight' = [c \in Clients |-> 0]
  /\ cli' = [c \in Clients |-> InitCli]
  /\ c2s' = [c \in Clients |-> <<>>]
  /\ s2c' = [c \in Clients |-> <<>>]
  /\ link' = [c \in Clients |-> "ok"]
  /\ proxy' = [c \in Clients |-> "pass"]
  /\ sconn' = [c \in Clients |-> InitSConn]
  /\ srv' = [id \in CallIds |-> InitSrv]
  /\ orph' = {}
  /\ pool' = [created |-> 0, free |-> 0]
  /\ mem' = 0
  /\ srvSt' = "up"
  /\ pend' = {}

(* "after close every started call has returned" *)
AllReturned == \A id \in CallIds : call[id].pc \in {"new", "done"}

(* start, cancel, cut, proxy, shutdown and close are logged by the driver's controller *)
(* goroutine, which executes cut / proxy / shutdown synchronously: when it logs the    *)
(* next event, those have taken effect.                                                *)
Consume(e) ==
  \/ e.ev = "start"    /\ ~SyncPending /\ Invoke(e.id, e.tmo, e.ff)
  \/ e.ev = "cancel"   /\ ~SyncPending /\ CtxCancel(e.id)
  \/ e.ev = "enter"    /\ HandlerEnter(e.id)
  \/ e.ev = "exit"     /\ HandlerExit(e.id, e.out)
  \/ e.ev = "ret"      /\ Return(e.id) /\ call'[e.id].rv = Res(e.res, e.got)
  \/ e.ev = "close"    /\ ~SyncPending /\ IF e.side = "server" THEN SrvCloseBegin ELSE CliCloseBegin(e.side)
  \/ e.ev = "closed"   /\ IF e.side = "server" THEN SrvCloseEnd ELSE CliCloseEnd(e.side)
  \/ e.ev = "shutdown" /\ ~SyncPending /\ SrvShutdown
  \/ e.ev = "cut"      /\ ~SyncPending /\ Cut(e.cl)
  \/ e.ev = "proxy"    /\ ~SyncPending /\ SetProxy(e.cl, e.mode)
  \/ e.ev = "end"      /\ ~SyncPending /\ AllReturned /\ UNCHANGED vars
  \/ e.ev = "reset"    /\ Reset

(* With the depth-first queue TLC expands the successor generated last first: the      *)
(* event-consuming disjunct comes last, so an event is consumed as soon as it can be.  *)
TraceNext ==
  \/ /\ l <= Len(Trace) /\ sil < MaxSilent
     /\ Internal
     /\ UNCHANGED l /\ sil' = sil + 1
  \/ /\ l <= Len(Trace)
     /\ Consume(Trace[l])
     /\ Mark(l)
     /\ (l = Len(Trace) => PrintT("@ACCEPTED") /\ TLCSet("exit", TRUE))   \* an explanation is complete: stop searching
     /\ l' = l + 1 /\ sil' = 0

(* acceptance: every event was consumed on some path *)
Accepted == IF TLCGet(1) = Len(Trace) THEN TRUE
            ELSE PrintT(<<"@HW", TLCGet(1), Len(Trace)>>) /\ FALSE

(* the design-level invariants of RpcCalls must hold in every state that explains a prefix *)
TraceInv == AtMostOnce /\ InFlightOK /\ WorkerBound /\ MemBound
=============================================================================
