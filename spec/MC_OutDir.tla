----------------------------- MODULE MC_OutDir -----------------------------
(***************************************************************************)
(* Bounded instance of OutDir for exhaustive TLC runs; the state graph is  *)
(* dumped (-dump dot,actionlabels) and every edge is replayed on real      *)
(* directories with the real generators (harness/checks/gencli/c16.go).    *)
(***************************************************************************)
EXTENDS OutDir
=============================================================================
