----------------------------- MODULE Semaphore -----------------------------
(***************************************************************************)
(* Weighted semaphore of internal/vkgo/pkg/semaphore/semaphore.go (the     *)
(* x/sync semaphore extended by VK with SetSize and ForceAcquire).         *)
(*                                                                         *)
(* One action per critical section of the code under s.mu (the hook of     *)
(* build tag `verif` emits one event per critical section, named in the    *)
(* comment of each action), plus the three process-local steps that are    *)
(* not critical sections (AcquireWake, DoomedCancel and the return of a    *)
(* call).  A process performs one Acquire/TryAcquire at a time:            *)
(*                                                                         *)
(*   idle --AcquireFast/TryAcquire--------------------------> holding      *)
(*   idle --AcquireEnqueue--> waiting --(notify by another)--> ready       *)
(*   ready --AcquireWake | CtxDoneAlreadyReady--> holding                  *)
(*   waiting --CtxDoneRemove--> idle                                       *)
(*   idle --AcquireDoomed--> doomed --DoomedCancel--> idle                 *)
(*   holding --Release (possibly in parts)--> idle                         *)
(*                                                                         *)
(* "ready" = the waiter was removed from the list and its channel closed   *)
(* inside somebody's critical section, but the goroutine has not returned  *)
(* from Acquire yet; this is the window in which a context cancellation    *)
(* takes the CtxDoneAlreadyReady branch of the code.                       *)
(*                                                                         *)
(* w[p] is the weight of p's current call: requested while waiting/doomed, *)
(* held while ready/holding.  forced is the weight taken by ForceAcquire   *)
(* and not yet given back with Release (ghost split of cur).               *)
(***************************************************************************)
EXTENDS Integers, Sequences, FiniteSets, TLC, Json

CONSTANTS NP,          \* number of processes
          Weights,     \* weights a call may use (naturals)
          Sizes,       \* sizes SetSize may install / the initial sizes
          MaxForced    \* bound on the outstanding forced weight (guard, not a constraint)

Procs == 1..NP

(* amounts a Release may give back: constant bound so that TLC names the   *)
(* Release steps (a state-dependent bound would make them anonymous)       *)
MaxAmount == CHOOSE m \in Weights \cup {MaxForced} : \A x \in Weights \cup {MaxForced} : x <= m
Amounts == 0..MaxAmount

VARIABLES size, cur, waiters, st, w, forced,
          js           \* ToJson(projection): node label for edge replay

core == <<size, cur, waiters, st, w, forced>>
vars == <<size, cur, waiters, st, w, forced, js>>

Proj == [cur |-> cur, size |-> size, forced |-> forced,
         q |-> [i \in DOMAIN waiters |-> <<waiters[i].p, waiters[i].n>>],
         st |-> [p \in Procs |-> st[p]], w |-> [p \in Procs |-> w[p]]]
JS == js = ToJson(Proj)
JSNext == js' = ToJson(Proj')

Admitted == {"ready", "holding"}

RECURSIVE SumW(_)
SumW(S) == IF S = {} THEN 0 ELSE LET p == CHOOSE x \in S : TRUE IN w[p] + SumW(S \ {p})
HeldSum == SumW({p \in Procs : st[p] \in Admitted})

(* the loop of notifyWaiters as a function: admit heads while they fit *)
RECURSIVE NotifyR(_, _, _, _)
NotifyR(sz, c, ws, adm) ==
  IF ws = <<>> \/ sz - c < Head(ws).n THEN [cur |-> c, waiters |-> ws, adm |-> adm]
  ELSE NotifyR(sz, c + Head(ws).n, Tail(ws), adm \cup {Head(ws).p})
Notify(sz, c, ws) == NotifyR(sz, c, ws, {})
NoNotify(c, ws) == [cur |-> c, waiters |-> ws, adm |-> {}]

(* the test at the top of Acquire and in TryAcquire *)
Fits(n) == size - cur >= n /\ waiters = <<>>

Idx(p) == CHOOSE i \in DOMAIN waiters : waiters[i].p = p
Without(ws, i) == SubSeq(ws, 1, i - 1) \o SubSeq(ws, i + 1, Len(ws))

Init ==
  /\ size \in Sizes /\ cur = 0 /\ waiters = <<>> /\ forced = 0
  /\ st = [p \in Procs |-> "idle"] /\ w = [p \in Procs |-> 0]
  /\ JS

---------------------------------------------------------------------------
(* Acquire, fast path.                                      hook: acq_fast *)
AcquireFast(p, n) ==
  /\ st[p] = "idle" /\ Fits(n)
  /\ cur' = cur + n
  /\ st' = [st EXCEPT ![p] = "holding"] /\ w' = [w EXCEPT ![p] = n]
  /\ UNCHANGED <<size, waiters, forced>> /\ JSNext

(* Acquire, n > size: blocks on ctx only, never queued.   hook: acq_doomed *)
AcquireDoomed(p, n) ==
  /\ st[p] = "idle" /\ ~Fits(n) /\ n > size
  /\ st' = [st EXCEPT ![p] = "doomed"] /\ w' = [w EXCEPT ![p] = n]
  /\ UNCHANGED <<size, cur, waiters, forced>> /\ JSNext

(* Acquire, queued at the back.                          hook: acq_enqueue *)
AcquireEnqueue(p, n) ==
  /\ st[p] = "idle" /\ ~Fits(n) /\ n <= size
  /\ waiters' = Append(waiters, [p |-> p, n |-> n])
  /\ st' = [st EXCEPT ![p] = "waiting"] /\ w' = [w EXCEPT ![p] = n]
  /\ UNCHANGED <<size, cur, forced>> /\ JSNext

(* ctx done while queued: remove; if it was the head, run the notify loop   *)
(* for the new head.                                      hook: ctx_remove *)
(* The code runs the loop only `if isFront && s.size > s.cur`.  For        *)
(* weights >= 1 the extra test changes nothing (with size <= cur no waiter *)
(* of weight >= 1 fits, the loop would admit nobody).  For a waiter of     *)
(* weight 0 and size = cur it does: the loop would admit it (and a fresh   *)
(* Acquire(0) on an empty queue succeeds in that state), the code leaves   *)
(* it blocked until the next Release/SetSize.  The specification states    *)
(* the intended behaviour, under which HeadBlocked holds for all weights.  *)
CtxDoneRemove(p) ==
  /\ st[p] = "waiting"
  /\ LET i  == Idx(p)
         w2 == Without(waiters, i)
         r  == IF i = 1 THEN Notify(size, cur, w2) ELSE NoNotify(cur, w2)
     IN /\ cur' = r.cur /\ waiters' = r.waiters
        /\ st' = [q \in Procs |-> IF q = p THEN "idle" ELSE IF q \in r.adm THEN "ready" ELSE st[q]]
  /\ w' = [w EXCEPT ![p] = 0]
  /\ UNCHANGED <<size, forced>> /\ JSNext

(* ctx done but the channel is already closed: the cancellation is         *)
(* ignored, Acquire returns nil.                           hook: ctx_ready *)
CtxDoneAlreadyReady(p) ==
  /\ st[p] = "ready"
  /\ st' = [st EXCEPT ![p] = "holding"]
  /\ UNCHANGED <<size, cur, waiters, w, forced>> /\ JSNext

(* the goroutine sees its channel closed and returns nil (no lock taken)   *)
AcquireWake(p) ==
  /\ st[p] = "ready"
  /\ st' = [st EXCEPT ![p] = "holding"]
  /\ UNCHANGED <<size, cur, waiters, w, forced>> /\ JSNext

(* ctx done for a doomed call: returns ctx.Err() (no lock taken)           *)
DoomedCancel(p) ==
  /\ st[p] = "doomed"
  /\ st' = [st EXCEPT ![p] = "idle"] /\ w' = [w EXCEPT ![p] = 0]
  /\ UNCHANGED <<size, cur, waiters, forced>> /\ JSNext

(* TryAcquire.                                       hook: try (ok = TRUE) *)
TryAcquireOK(p, n) ==
  /\ st[p] = "idle" /\ Fits(n)
  /\ cur' = cur + n
  /\ st' = [st EXCEPT ![p] = "holding"] /\ w' = [w EXCEPT ![p] = n]
  /\ UNCHANGED <<size, waiters, forced>> /\ JSNext

(*                                                  hook: try (ok = FALSE) *)
TryAcquireFail(p, n) ==
  /\ st[p] = "idle" /\ ~Fits(n)
  /\ UNCHANGED vars

(* Release of k of the w[p] tokens p holds, then the notify loop.          *)
(*                                                           hook: release *)
Release(p, k) ==
  /\ st[p] = "holding" /\ k \in 0..w[p]
  /\ LET r == Notify(size, cur - k, waiters)
     IN /\ cur' = r.cur /\ waiters' = r.waiters
        /\ st' = [q \in Procs |-> IF q = p THEN (IF k = w[p] THEN "idle" ELSE "holding")
                                  ELSE IF q \in r.adm THEN "ready" ELSE st[q]]
  /\ w' = [w EXCEPT ![p] = w[p] - k]
  /\ UNCHANGED <<size, forced>> /\ JSNext

(* ForceAcquire: unconditional, no notify.                     hook: force *)
ForceAcquire(n) ==
  /\ forced + n <= MaxForced
  /\ cur' = cur + n /\ forced' = forced + n
  /\ UNCHANGED <<size, waiters, st, w>> /\ JSNext

(* Release of tokens that were force-acquired.               hook: release *)
ReleaseForced(k) ==
  /\ k \in 1..forced
  /\ LET r == Notify(size, cur - k, waiters)
     IN /\ cur' = r.cur /\ waiters' = r.waiters
        /\ st' = [q \in Procs |-> IF q \in r.adm THEN "ready" ELSE st[q]]
  /\ forced' = forced - k
  /\ UNCHANGED <<size, w>> /\ JSNext

(* SetSize: install the size, then the notify loop.          hook: setsize *)
SetSize(n) ==
  /\ size' = n
  /\ LET r == Notify(n, cur, waiters)
     IN /\ cur' = r.cur /\ waiters' = r.waiters
        /\ st' = [q \in Procs |-> IF q \in r.adm THEN "ready" ELSE st[q]]
  /\ UNCHANGED <<w, forced>> /\ JSNext

Next ==
  \/ \E p \in Procs, n \in Weights :
        \/ AcquireFast(p, n) \/ AcquireDoomed(p, n) \/ AcquireEnqueue(p, n)
        \/ TryAcquireOK(p, n) \/ TryAcquireFail(p, n)
  \/ \E p \in Procs :
        \/ CtxDoneRemove(p) \/ CtxDoneAlreadyReady(p) \/ AcquireWake(p) \/ DoomedCancel(p)
  \/ \E p \in Procs, k \in Amounts : Release(p, k)
  \/ \E n \in Weights : ForceAcquire(n)
  \/ \E k \in Amounts : ReleaseForced(k)
  \/ \E n \in Sizes : SetSize(n)

---------------------------------------------------------------------------
(* Invariants *)
TypeOK ==
  /\ size \in Sizes /\ cur \in Nat /\ forced \in 0..MaxForced
  /\ st \in [Procs -> {"idle", "waiting", "doomed", "ready", "holding"}]
  /\ w \in [Procs -> Nat]
  /\ \A i \in DOMAIN waiters : waiters[i].p \in Procs /\ waiters[i].n \in Weights

(* the list holds exactly the waiting processes, once each, with their n *)
QueueConsistent ==
  /\ \A i, j \in DOMAIN waiters : waiters[i].p = waiters[j].p => i = j
  /\ {waiters[i].p : i \in DOMAIN waiters} = {p \in Procs : st[p] = "waiting"}
  /\ \A i \in DOMAIN waiters : waiters[i].n = w[waiters[i].p]
  /\ \A p \in Procs : st[p] = "idle" => w[p] = 0

(* cur = held + forced *)
Accounting == cur = HeldSum + forced

(* safety form of "no lost wake-up": between critical sections the head    *)
(* never fits                                                              *)
HeadBlocked == waiters # <<>> => size - cur < Head(waiters).n

(* a doomed caller really was too big when it arrived; it is never queued *)
DoomedNotQueued == \A p \in Procs : st[p] = "doomed" => \A i \in DOMAIN waiters : waiters[i].p # p

---------------------------------------------------------------------------
(* Action properties *)
NewlyAdmitted == {p \in Procs : st[p] \notin Admitted /\ st'[p] \in Admitted}

(* an admission of a non-forced acquirer happens only when the weight      *)
(* fits at that moment: after the step (all admissions of one notify loop  *)
(* included) the total does not exceed the size in force                   *)
NoOverAdmitStep == NewlyAdmitted # {} => cur' <= size'
NoOverAdmit == [][NoOverAdmitStep]_vars

(* FIFO: (1) nobody is admitted on the fast path past a non-empty queue;   *)
(* (2) the queue only changes by appending at the back, by removing one    *)
(* cancelled waiter, and by admitting a prefix in order                    *)
FIFOStep ==
  LET cancelled == {p \in Procs : st[p] = "waiting" /\ st'[p] = "idle"}
      fromQueue == {p \in Procs : st[p] = "waiting" /\ st'[p] \in Admitted}
      base      == SelectSeq(waiters, LAMBDA x : x.p \notin cancelled)
  IN /\ \A p \in Procs : st[p] = "idle" /\ st'[p] \in Admitted => waiters = <<>> /\ waiters' = <<>>
     /\ \/ \E k \in 0..Len(base) :
              /\ fromQueue = {base[i].p : i \in 1..k}
              /\ waiters' = SubSeq(base, k + 1, Len(base))
        \/ /\ fromQueue = {} /\ cancelled = {}
           /\ Len(waiters') = Len(waiters) + 1
           /\ SubSeq(waiters', 1, Len(waiters)) = waiters
FIFO == [][FIFOStep]_vars

---------------------------------------------------------------------------
(* Liveness *)
ReleaseAll(p) == Release(p, w[p])

Fairness ==
  /\ \A p \in Procs : WF_vars(AcquireWake(p))
  /\ \A p \in Procs : WF_vars(ReleaseAll(p))

Spec == Init /\ [][Next]_vars /\ Fairness

HeadFits == waiters # <<>> /\ size - cur >= Head(waiters).n

(* whenever capacity allows the first waiter to proceed it is (eventually) *)
(* admitted                                                                *)
HeadEventuallyAdmitted ==
  \A p \in Procs : (HeadFits /\ Head(waiters).p = p) ~> (st[p] \in Admitted \/ st[p] = "idle")

(* a closed channel is eventually noticed *)
ReadyEventuallyHolds == \A p \in Procs : (st[p] = "ready") ~> (st[p] = "holding")

(* no starvation of the head: it cannot wait forever while the capacity    *)
(* not taken by forced acquisitions is enough for it (holders release,     *)
(* nobody can overtake it)                                                 *)
HeadNotStarved ==
  \A p \in Procs : []<>~(waiters # <<>> /\ Head(waiters).p = p /\ size - forced >= Head(waiters).n)
=============================================================================
