-------------------------- MODULE SimUdpTransport --------------------------
(***************************************************************************)
(* MC_UdpTransport plus history variables: `cmd' = the simulator command   *)
(* that produced the state, `hist' = all commands so far.  Used with       *)
(* `tlc -simulate -depth SimDepth': every behaviour that reaches SimDepth  *)
(* steps is printed as a command string (Emit), which the harness executes *)
(* on the real transports.  Kept apart from MC_UdpTransport so that the    *)
(* history does not multiply the exhaustively checked state space.         *)
(***************************************************************************)
EXTENDS MC_UdpTransport, Json

CONSTANT SimDepth

VARIABLES cmd, hist

SimInit == Init /\ cmd = <<"init">> /\ hist = <<>>

SimStep ==
  \/ \E c \in Conns, sz \in 1 .. MaxChunks :
        NewMessage(c, nmsg + 1, sz) /\ cmd' = <<"n", c[1], c[2], sz>>
  \/ \E t \in Transports : WriteSome(t) /\ cmd' = <<"w", t>>
  \/ \E t \in Transports : \E i \in 0 .. (Len(net[t]) - 1) : Read(t, i) /\ cmd' = <<"r", t, i>>
  \/ \E t \in Transports : EncHdr(t) /\ cmd' = <<"e", t>>
  \/ \E c \in Conns : Timer("resend", c) /\ cmd' = <<"t", c[1], 0>>
  \/ \E c \in Conns : Timer("ack", c) /\ cmd' = <<"t", c[2], 1>>
  \/ \E c \in Conns : Timer("nack", c) /\ cmd' = <<"t", c[2], 2>>
  \/ \E t \in Transports : \E i \in 0 .. (Len(net[t]) - 1) :
        \/ Dup(t, i) /\ cmd' = <<"d", t, i>>
        \/ Loss(t, i) /\ cmd' = <<"l", t, i>>
  \/ Settle /\ cmd' = <<"s">>

SimNext == SimStep /\ hist' = Append(hist, cmd')

Emit == Len(hist) = SimDepth => PrintT(ToJson(<<"@@", hist>>))
=============================================================================
