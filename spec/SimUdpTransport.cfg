CONSTANTS
  NT = @NT@
  MemLimit = @MEM@
  MaxWin = 64
  MaxMsgs = @MSGS@
  MaxFaults = @FAULTS@
  MaxNet = @NET@
  MaxHdr = @HDR@
  MaxBurst = @BURST@
  MaxAckSet = 50
  MaxChunks = @CHUNKS@
  Sched = TRUE
  SimDepth = @DEPTH@
  Patient = @PATIENT@
  ChunkCounts <- MCChunkCounts
INIT SimInit
NEXT SimNext
INVARIANTS Emit
CHECK_DEADLOCK FALSE
