CONSTANTS
  Clients = {"c1", "c2"}
  CallIds = @IDS@
  OwnerOf <- TOwnerOf
  Take <- TTake
  MaxWorkers = @WORKERS@
  MemLimit = 1000
  CtlTake = 1
  AllowOrphans = TRUE
  AllowBodyDeadline = FALSE
  MaxSilent = 200
INIT TInit
NEXT TraceNext
VIEW TView
INVARIANT TraceInv
POSTCONDITION Accepted
CHECK_DEADLOCK FALSE
