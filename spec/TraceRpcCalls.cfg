CONSTANTS
  Clients = {"c1", "c2"}
  CallIds = {1, 2, 3, 4, 5, 6}
  OwnerOf <- TOwnerOf
  Take <- TTake
  MaxWorkers = @WORKERS@
  MemLimit = 1000
  CtlTake = 1
  AllowOrphans = TRUE
  MaxSilent = 200
INIT TInit
NEXT TraceNext
VIEW TView
INVARIANT TraceInv
POSTCONDITION Accepted
CHECK_DEADLOCK FALSE
