----------------------------- MODULE TL1Format -----------------------------
(***************************************************************************)
(* The TL1 wire format over the instance graph of TLSchema.                *)
(*   - fixed primitives little-endian, strings per Prim (minimal length    *)
(*     form and zero padding mandatory);                                   *)
(*   - boxed = 4-byte constructor tag first; Bool = one of two tags;       *)
(*   - a field with a field mask is present iff its bit is set in the mask *)
(*     (an earlier # field, an outer nat parameter or a constant);         *)
(*   - n*[T] (tuple) carries no count and must have exactly n elements,    *)
(*     vector carries a 32-bit count; dictionaries are vectors of          *)
(*     key/value structs; unions are always boxed and dispatch on the tag. *)
(* Enc1 returns [ok, b]; ok = FALSE is the writer's error (a tuple whose   *)
(* length differs from its size parameter).  Dec1 is total on arbitrary    *)
(* byte sequences and returns [ok, v, pos] (pos = next unread index).      *)
(* Sanity = the --checkLengthSanity option: it must not change verdicts.   *)
(***************************************************************************)
EXTENDS TLSchema

CONSTANT Sanity

OKB(b) == [ok |-> TRUE, b |-> b]
ErrB == [ok |-> FALSE, b |-> <<>>]
Cat(x, y) == IF x.ok /\ y.ok THEN OKB(x.b \o y.b) ELSE ErrB

Enc1Bytes(s) == Hdr1(Len(s)) \o s \o Zeros(Pad1(Len(s)))

RECURSIVE Enc1(_, _, _, _)
RECURSIVE EncFields1(_, _, _, _)
RECURSIVE EncElems1(_, _, _, _)
EncFields1(t, env, v, i) ==
  IF i > Len(t.fields) THEN OKB(<<>>)
  ELSE LET f == t.fields[i]
           cenv == ArgsVal(f.na, env, t, v)
           here == IF ~IsOpt(f) THEN Enc1(f.t, cenv, v[i], f.bare)
                   ELSE IF NatMasked(f) THEN
                          (IF MaskOn(f, env, t, v)
                           THEN Enc1(f.t, cenv, IF IsP(v[i]) /\ ~f.isbit THEN PV(v[i]) ELSE Default(f.t, cenv), f.bare)
                           ELSE OKB(<<>>))
                   ELSE OKB(<<>>)        \* TL2-only optional field: no TL1 form
       IN Cat(here, EncFields1(t, env, v, i + 1))
EncElems1(t, env, v, j) ==
  IF j > Len(v) THEN OKB(<<>>)
  ELSE Cat(Enc1(t.elem.t, ArgsVal(t.elem.na, env, t, <<>>), v[j], t.elem.bare), EncElems1(t, env, v, j + 1))
Enc1(tn, env, v, bare) ==
  LET t == TY(tn) IN
  CASE t.k = "prim" ->
         (CASE t.prim = "string" -> OKB(Enc1Bytes(v))
            [] t.prim = "bool"   -> OKB(IF v THEN t.trueTag ELSE t.falseTag)
            [] t.prim = "bit"    -> OKB(<<>>)
            [] OTHER             -> OKB(v))
    [] t.k = "struct" -> Cat(OKB(IF bare THEN <<>> ELSE t.tag), EncFields1(t, env, v, 1))
    [] t.k = "union"  -> Enc1(t.variants[v.i], ArgsVal(t.elemNa, env, t, <<>>), v.v, FALSE)
    [] t.k = "array"  ->
         IF ~t.tuple THEN Cat(OKB(B4(Len(v))), EncElems1(t, env, v, 1))
         ELSE LET sz == ArraySize(t, env) IN
              IF IsSmall(sz) /\ N4(sz) = Len(v) THEN EncElems1(t, env, v, 1) ELSE ErrB
    [] t.k = "dict"   -> Cat(OKB(B4(Len(v))), EncElems1(t, env, v, 1))

(* does v contain a non-empty counted array / dynamic tuple whose elements take less *)
(* than 4 bytes each on average?  (the only values a fixed "4 bytes per element"     *)
(* sanity rule can wrongly refuse)                                                   *)
RECURSIVE SmallElems(_, _, _)
SmallElems(tn, env, v) ==
  LET t == TY(tn) IN
  CASE t.k = "prim" -> FALSE
    [] t.k = "struct" ->
         \E i \in 1..Len(t.fields) :
            LET f == t.fields[i] cenv == ArgsVal(f.na, env, t, v) IN
            IF IsOpt(f) THEN IsP(v[i]) /\ ~f.isbit /\ SmallElems(f.t, cenv, PV(v[i])) ELSE SmallElems(f.t, cenv, v[i])
    [] t.k = "union" -> SmallElems(t.variants[v.i], ArgsVal(t.elemNa, env, t, <<>>), v.v)
    [] t.k \in {"array", "dict"} ->
         \/ (Len(v) > 0 /\ (t.k = "dict" \/ ~t.tuple \/ t.dyn) /\ Len(EncElems1(t, env, v, 1).b) < 4 * Len(v))
         \/ \E j \in 1..Len(v) : SmallElems(t.elem.t, ArgsVal(t.elem.na, env, t, <<>>), v[j])

---------------------------------------------------------------------------
(* dictionaries are decoded into maps: sorted by key, the last duplicate wins *)
RECURSIVE SeqLess(_, _, _)
SeqLess(a, b, i) == IF i > Len(a) THEN i <= Len(b)
                    ELSE IF i > Len(b) THEN FALSE
                    ELSE IF a[i] # b[i] THEN a[i] < b[i] ELSE SeqLess(a, b, i + 1)
(* numeric order of little-endian two's-complement / unsigned integers *)
RECURSIVE LELess(_, _, _)
LELess(a, b, i) == IF i = 0 THEN FALSE ELSE IF a[i] # b[i] THEN a[i] < b[i] ELSE LELess(a, b, i - 1)
KeyLess(kt, a, b) ==
  CASE kt = "string" -> SeqLess(a, b, 1)
    [] kt \in {"int32", "int64"} ->
         LET na == a[Len(a)] >= 128  nb == b[Len(b)] >= 128 IN
         IF na # nb THEN na ELSE LELess(a, b, Len(a))
    [] OTHER -> LELess(a, b, Len(a))

DictKeyType(t) == TY(TY(t.elem.t).fields[1].t).prim
NormDict(t, v) ==
  LET kt == DictKeyType(t)
      Key(e) == e[1]
      lastIdx == {j \in 1..Len(v) : \A m \in (j + 1)..Len(v) : Key(v[m]) # Key(v[j])}
      RECURSIVE Sorted(_)
      Sorted(S) == IF S = {} THEN <<>>
                   ELSE LET m == CHOOSE j \in S : \A o \in S \ {j} : KeyLess(kt, Key(v[j]), Key(v[o]))
                        IN <<v[m]>> \o Sorted(S \ {m})
  IN Sorted(lastIdx)

---------------------------------------------------------------------------
OKV(v, pos) == [ok |-> TRUE, v |-> v, pos |-> pos, unk |-> FALSE, big |-> FALSE]
ErrV == [ok |-> FALSE, v |-> <<>>, pos |-> 0, unk |-> FALSE, big |-> FALSE]
(* rejected because an announced count cannot fit (only the sanity rule refuses it before allocating) *)
ErrBig == [ok |-> FALSE, v |-> <<>>, pos |-> 0, unk |-> FALSE, big |-> TRUE]
(* outside the model: an announced count too large to enumerate here while  *)
(* the sanity rule is off (elements may be zero-sized, so the real reader   *)
(* may legitimately accept it); the harness does not compare such inputs    *)
ErrU == [ok |-> FALSE, v |-> <<>>, pos |-> 0, unk |-> TRUE, big |-> TRUE]
Avail(b, pos) == Len(b) - pos + 1

Dec1Bytes(b, pos, k) == IF Avail(b, pos) < k THEN ErrV ELSE OKV(SubSeq(b, pos, pos + k - 1), pos + k)

Dec1String(b, pos) ==
  LET r == Dec1Str(Concrete(SubSeq(b, pos, Len(b)))) IN
  IF ~r.ok THEN ErrV
  ELSE LET h == IF b[pos] <= 253 THEN 1 ELSE IF b[pos] = 254 THEN 4 ELSE 8 IN
       OKV(SubSeq(b, pos + h, pos + h + r.len - 1), pos + r.consumed)

RECURSIVE Dec1(_, _, _, _, _)
RECURSIVE DecFields1(_, _, _, _, _, _)
RECURSIVE DecElems1(_, _, _, _, _, _)
DecFields1(t, env, b, pos, i, acc) ==
  IF i > Len(t.fields) THEN OKV(acc, pos)
  ELSE LET f == t.fields[i]
           cenv == ArgsVal(f.na, env, t, acc)
       IN IF ~IsOpt(f) THEN
            (LET r == Dec1(f.t, cenv, b, pos, f.bare) IN
             IF r.ok THEN DecFields1(t, env, b, r.pos, i + 1, Append(acc, r.v)) ELSE r)
          ELSE IF NatMasked(f) /\ MaskOn(f, env, t, acc) THEN
            (LET r == Dec1(f.t, cenv, b, pos, f.bare) IN
             IF r.ok THEN DecFields1(t, env, b, r.pos, i + 1, Append(acc, Pres(FDefault(f, r.v)))) ELSE r)
          ELSE DecFields1(t, env, b, pos, i + 1, Append(acc, Absent))
DecElems1(t, env, b, pos, n, acc) ==
  IF n = 0 THEN OKV(acc, pos)
  ELSE LET r == Dec1(t.elem.t, ArgsVal(t.elem.na, env, t, <<>>), b, pos, t.elem.bare) IN
       IF r.ok THEN DecElems1(t, env, b, r.pos, n - 1, Append(acc, r.v)) ELSE r
(* An announced element count c.  The length-sanity option is a safeguard against   *)
(* allocation amplification and must be invisible in the accept/reject verdict: a   *)
(* count is refused early only when the remaining bytes cannot hold that many       *)
(* elements, which the element-wise decoding below decides anyway.  Counts that are *)
(* too large to enumerate here ("unk") are exact rejections when the rule is on and *)
(* every element occupies at least 4 bytes, otherwise outside the model.            *)
Tiny(c) == c[3] = 0 /\ c[4] = 0 /\ c[2] < 16            \* < 4096
ElemAtLeast4(t) == LET e == TY(t.elem.t) IN
                   (e.k = "prim" /\ e.prim # "bit") \/ e.k \in {"union", "dict"} \/ (e.k = "array" /\ ~e.tuple)
                   \/ (e.k = "struct" /\ ~t.elem.bare)
CountVerdict(t, c, b, pos, sanityApplies) ==
  IF Tiny(c) THEN "go"
  ELSE IF sanityApplies /\ Sanity /\ ElemAtLeast4(t) /\ Avail(b, pos) < 16384 THEN "rej" ELSE "unk"
DecCounted(t, env, b, pos, c, sanityApplies) ==
  LET cv == CountVerdict(t, c, b, pos, sanityApplies) IN
  IF cv = "rej" THEN ErrBig ELSE IF cv = "unk" THEN ErrU ELSE DecElems1(t, env, b, pos, N4(c), <<>>)
Dec1(tn, env, b, pos, bare) ==
  LET t == TY(tn) IN
  CASE t.k = "prim" ->
         (CASE t.prim = "string" -> Dec1String(b, pos)
            [] t.prim = "bool"   -> (LET r == Dec1Bytes(b, pos, 4) IN
                                     IF ~r.ok THEN ErrV
                                     ELSE IF r.v = t.trueTag THEN OKV(TRUE, r.pos)
                                     ELSE IF r.v = t.falseTag THEN OKV(FALSE, r.pos) ELSE ErrV)
            [] t.prim = "bit"    -> OKV(FALSE, pos)
            [] OTHER             -> Dec1Bytes(b, pos, PrimSize(t.prim)))
    [] t.k = "struct" ->
         IF bare THEN DecFields1(t, env, b, pos, 1, <<>>)
         ELSE (LET r == Dec1Bytes(b, pos, 4) IN
               IF r.ok /\ r.v = t.tag THEN DecFields1(t, env, b, r.pos, 1, <<>>) ELSE ErrV)
    [] t.k = "union" ->
         (LET r == Dec1Bytes(b, pos, 4) IN
          IF ~r.ok THEN ErrV
          ELSE LET hit == {j \in 1..Len(t.variants) : TY(t.variants[j]).tag = r.v} IN
               IF hit = {} THEN ErrV
               ELSE LET j == CHOOSE x \in hit : TRUE
                        q == DecFields1(TY(t.variants[j]), ArgsVal(t.elemNa, env, t, <<>>), b, r.pos, 1, <<>>)
                    IN IF q.ok THEN OKV([i |-> j, v |-> q.v], q.pos) ELSE q)
    [] t.k = "array" ->
         IF ~t.tuple THEN
           (LET r == Dec1Bytes(b, pos, 4) IN
            IF r.ok THEN DecCounted(t, env, b, r.pos, r.v, TRUE) ELSE ErrV)
         ELSE DecCounted(t, env, b, pos, ArraySize(t, env), t.dyn)
    [] t.k = "dict" ->
         (LET r == Dec1Bytes(b, pos, 4) IN
          IF ~r.ok THEN ErrV
          ELSE LET q == DecCounted(t, env, b, r.pos, r.v, TRUE) IN
               IF q.ok THEN OKV(NormDict(t, q.v), q.pos) ELSE q)
=============================================================================
