------------------------------- MODULE TLJson -------------------------------
(***************************************************************************)
(* The TL <-> JSON mapping (docs/TLPrimer "Взаимное соответствие с JSON")  *)
(* as abstract JSON trees:                                                 *)
(*   [t |-> "obj", kv |-> << <<key, tree>>, ... >>]   (ordered; key is a   *)
(*        field name, or for dictionaries a key tree)                      *)
(*   [t |-> "arr", items |-> <<tree, ...>>]                                *)
(*   [t |-> "str", b |-> bytes]          valid UTF-8 text                  *)
(*   [t |-> "b64", b |-> bytes]          {"base64": ...} object            *)
(*   [t |-> "num", p |-> prim, b |-> little-endian bytes, q |-> quoted]    *)
(*   [t |-> "bool", v |-> BOOLEAN]                                         *)
(* WJ(T, env, v, m) is the tree of value v; mode m = "canon" is what the   *)
(* writers must produce, the other modes are the documented ALTERNATIVE    *)
(* spellings every reader must map to the same value:                      *)
(*   "full"    empty fields written explicitly                             *)
(*   "numstr"  numbers as decimal strings                                  *)
(*   "b64"     every string as a base64 object                             *)
(*   "maybe"   Maybe without "ok"                                          *)
(*   "enumobj" enums as {"type":..} objects, field-less union variants as  *)
(*             bare type strings                                           *)
(*   "dictarr" dictionaries as arrays of {"key","value"}                   *)
(*   "nomask"  local field masks omitted when every set bit is implied by  *)
(*             an explicitly given field                                   *)
(*   "maskonly" a field whose local mask bit is set and which holds the    *)
(*             empty value is left out (only the mask says it is present)  *)
(* JsonBad(T, env, v, bad) are INVALID forms every reader must reject.     *)
(***************************************************************************)
EXTENDS TL2Format

(* ---- UTF-8 validity (RFC 3629 well-formedness, as Go's utf8.Valid) ---- *)
RECURSIVE UTF8Valid(_, _)
UTF8Valid(b, i) ==
  IF i > Len(b) THEN TRUE
  ELSE LET c == b[i]
           Cont(j) == j <= Len(b) /\ b[j] >= 128 /\ b[j] <= 191
           In(j, lo, hi) == j <= Len(b) /\ b[j] >= lo /\ b[j] <= hi
       IN CASE c <= 127 -> UTF8Valid(b, i + 1)
            [] c >= 194 /\ c <= 223 -> Cont(i + 1) /\ UTF8Valid(b, i + 2)
            [] c = 224 -> In(i + 1, 160, 191) /\ Cont(i + 2) /\ UTF8Valid(b, i + 3)
            [] (c >= 225 /\ c <= 236) \/ c = 238 \/ c = 239 -> Cont(i + 1) /\ Cont(i + 2) /\ UTF8Valid(b, i + 3)
            [] c = 237 -> In(i + 1, 128, 159) /\ Cont(i + 2) /\ UTF8Valid(b, i + 3)
            [] c = 240 -> In(i + 1, 144, 191) /\ Cont(i + 2) /\ Cont(i + 3) /\ UTF8Valid(b, i + 4)
            [] c >= 241 /\ c <= 243 -> Cont(i + 1) /\ Cont(i + 2) /\ Cont(i + 3) /\ UTF8Valid(b, i + 4)
            [] c = 244 -> In(i + 1, 128, 143) /\ Cont(i + 2) /\ Cont(i + 3) /\ UTF8Valid(b, i + 4)
            [] OTHER -> FALSE

JStr(b, m) == IF m = "b64" \/ ~UTF8Valid(b, 1) THEN [t |-> "b64", b |-> b] ELSE [t |-> "str", b |-> b]
JNum(p, b, m) == [t |-> "num", p |-> p, b |-> b, q |-> (m = "numstr")]
JBool(x) == [t |-> "bool", v |-> x]
JObj(kv) == [t |-> "obj", kv |-> kv]
JArr(items) == [t |-> "arr", items |-> items]
JName(s, tag) == [t |-> "name", s |-> s, tag |-> tag]   \* a constructor name used as a JSON string ("name#tag" with legacy type names)

(* is the float zero for the purpose of "empty"?  +0.0 only: -0.0 differs *)
IsEmptyPrim(p, v) == CASE p = "string" -> v = <<>>
                       [] p \in {"bool", "bit"} -> ~v
                       [] OTHER -> IsZeroBytes(v)

RECURSIVE WJ(_, _, _, _)
RECURSIVE JEmpty(_, _, _)
RECURSIVE WJFields(_, _, _, _, _, _)
RECURSIVE WJElems(_, _, _, _, _)

(* may an unmasked field holding v be left out of the enclosing object *)
JEmpty(tn, env, v) ==
  LET t == TY(tn) IN
  CASE t.k = "prim" -> IsEmptyPrim(t.prim, v)
    [] t.k = "struct" -> IF t.typedef THEN JEmpty(t.fields[1].t, ArgsVal(t.fields[1].na, env, t, v), v[1])
                         ELSE t.name = "true"      \* the True type is left out ("чаще всего опускается")
    [] t.k = "union" -> IF t.maybe THEN v.i = 1 ELSE FALSE
    [] t.k = "array" -> IF t.tuple /\ ~t.dyn THEN FALSE ELSE Len(v) = 0
    [] t.k = "dict" -> Len(v) = 0

(* bits of local mask field number mi that are implied by explicitly written masked fields *)
ImpliedBits(t, v, mi) ==
  {t.fields[j].bit : j \in {j \in 1..Len(t.fields) :
       t.fields[j].mask.k = "field" /\ t.fields[j].mask.i + 1 = mi /\ IsP(v[j])}}
MaskImplied(t, v, mi) ==
  LET mv == FieldNat(t, v, mi) IN \A k \in 0..31 : BitSet(mv, k) => k \in ImpliedBits(t, v, mi)

WJFields(t, env, v, m, i, acc) ==
  IF i > Len(t.fields) THEN acc
  ELSE LET f == t.fields[i]
           cenv == ArgsVal(f.na, env, t, v)
           isMaskField == \E j \in 1..Len(t.fields) : t.fields[j].mask.k = "field" /\ t.fields[j].mask.i + 1 = i
           item ==
             IF IsOpt(f) THEN
               (IF ~IsP(v[i]) THEN <<>>
                \* bit set in a local mask, field itself left out: "set to the empty value"
                \* (only where the empty value does not depend on size parameters: a tuple must still have its size)
                ELSE IF m = "maskonly" /\ f.mask.k = "field" /\ ~f.isbit /\ PV(v[i]) = Default(f.t, cenv)
                        /\ Default(f.t, cenv) = Default(f.t, [j \in 1..Len(cenv) |-> Z4]) THEN <<>>
                ELSE IF f.isbit THEN << <<f.n, JBool(~(m = "bad-truefalse" /\ ~t.tl2 /\ f.mask.k = "field"))>> >>
                ELSE << <<f.n, WJ(f.t, cenv, PV(v[i]), m)>> >>)
             ELSE IF m = "nomask" /\ isMaskField /\ MaskImplied(t, v, i) THEN <<>>
             ELSE IF m # "full" /\ JEmpty(f.t, cenv, v[i]) THEN <<>>
             ELSE << <<f.n, WJ(f.t, cenv, v[i], m)>> >>
       IN WJFields(t, env, v, m, i + 1, acc \o item)

WJElems(t, env, v, m, j) ==
  IF j > Len(v) THEN <<>>
  ELSE <<WJ(t.elem.t, ArgsVal(t.elem.na, env, t, <<>>), v[j], m)>> \o WJElems(t, env, v, m, j + 1)

WJ(tn, env, v, m) ==
  LET t == TY(tn) IN
  CASE t.k = "prim" ->
         (CASE t.prim = "string" -> JStr(v, m)
            [] t.prim \in {"bool", "bit"} -> JBool(v)
            [] OTHER -> JNum(t.prim, v, m))
    [] t.k = "struct" ->
         IF t.typedef THEN WJ(t.fields[1].t, ArgsVal(t.fields[1].na, env, t, v), v[1], m)
         ELSE LET kv == WJFields(t, env, v, m, 1, <<>>) IN
              JObj(CASE m = "bad-unknown" -> Append(kv, <<"zz_unknown_key", JBool(TRUE)>>)
                     [] m = "bad-dup" /\ Len(kv) > 0 -> Append(kv, kv[1])
                     [] OTHER -> kv)
    [] t.k = "union" ->
         LET vt == TY(t.variants[v.i])
             uenv == ArgsVal(t.elemNa, env, t, <<>>)
             nm == JName(vt.tlname, vt.tag)
         IN IF t.maybe THEN
              (IF v.i = 1 THEN JObj(<<>>)
               ELSE LET inner == vt.fields[1]
                        val == WJ(inner.t, ArgsVal(inner.na, uenv, vt, v.v), v.v[1], m)
                        emptyVal == m # "full" /\ JEmpty(inner.t, ArgsVal(inner.na, uenv, vt, v.v), v.v[1])
                    IN IF m = "maybe" THEN JObj(<< <<"value", val>> >>)       \* no "ok": value must be explicit
                       ELSE IF m = "bad-maybe" THEN JObj(<< <<"ok", JBool(FALSE)>>, <<"value", val>> >>)
                       ELSE JObj(<< <<"ok", JBool(TRUE)>> >> \o (IF emptyVal THEN <<>> ELSE << <<"value", val>> >>)))
            ELSE IF t.enum THEN (IF m = "enumobj" THEN JObj(<< <<"type", nm>> >>) ELSE nm)
            ELSE IF Len(vt.fields) = 0 THEN (IF m = "enumobj" THEN nm ELSE JObj(<< <<"type", nm>> >>))
            ELSE IF m # "full" /\ JEmpty(t.variants[v.i], uenv, v.v) THEN JObj(<< <<"type", nm>> >>)   \* "value" may be left out when empty
            ELSE JObj(<< <<"type", nm>>, <<"value", WJ(t.variants[v.i], uenv, v.v, m)>> >>)
    [] t.k = "array" ->
         IF m = "bad-tuplen" /\ t.tuple /\ t.dyn
         THEN JArr(Append(WJElems(t, env, v, m, 1),
                          LET cenv == ArgsVal(t.elem.na, env, t, <<>>) IN WJ(t.elem.t, cenv, Default(t.elem.t, cenv), "full")))
         ELSE JArr(WJElems(t, env, v, m, 1))
    [] t.k = "dict" ->
         LET et == TY(t.elem.t)
             cenv == ArgsVal(t.elem.na, env, t, <<>>)
             kt == et.fields[1].t
             vt == et.fields[2].t
             venv(e) == ArgsVal(et.fields[2].na, cenv, et, e)
         IN IF m = "dictarr"
            THEN JArr([j \in 1..Len(v) |-> JObj(<< <<"key", WJ(kt, <<>>, v[j][1], m)>>, <<"value", WJ(vt, venv(v[j]), v[j][2], m)>> >>)])
            ELSE [t |-> "dict", kv |-> [j \in 1..Len(v) |-> <<WJ(kt, <<>>, v[j][1], "canon"), WJ(vt, venv(v[j]), v[j][2], m)>>]]

Modes == {"full", "numstr", "b64", "maybe", "enumobj", "dictarr", "nomask", "maskonly"}
(* invalid forms every reader must reject: unknown key, duplicate key, tuple longer than its size *)
(* parameter, Maybe with ok:false plus a value, true-field false while its mask bit is set (no TL2) *)
BadModes == {"bad-unknown", "bad-dup", "bad-tuplen", "bad-maybe", "bad-truefalse"}
=============================================================================
