CONSTANTS
  Sets = {"A", "B"}
  OptRows = {"go", "tlo"}
  Orders = {"xy", "yx"}
  ProcsSet = {1, 16}
  Reps = {1, 2}
  Digests = {"d1", "d2"}
  MaxRuns = 3
INIT Init
NEXT Next
INVARIANTS Functional OutIsHist
PROPERTIES WriteOnce
CHECK_DEADLOCK FALSE
