CONSTANTS
  MaxCombs = 4
  MaxFields = 3
  Namespaces = {"a"}
  NameMenu <- MCNameMenuSmall
  UnionMenu <- MCUnionMenu
  FuncNames = {"get"}
  FieldNames <- MCFieldNamesSmall
  Kinds <- MCKindsSmall
  MaskBits = {0}
  TagKinds = @TAGKINDS@
  Mutations = {}
  AllowTL2 = FALSE
  OptRows = {"lint"}
  MaxTags = @MAXTAGS@
  BaseIds = @BASES@
INIT InitTags
NEXT NextTags
INVARIANTS Emit
CHECK_DEADLOCK FALSE
