--------------------------- MODULE MC_Semaphore ---------------------------
(***************************************************************************)
(* Bounded instance of Semaphore for exhaustive TLC runs.                  *)
(*   MC_Semaphore.cfg      safety: invariants + action properties; also    *)
(*                         used with -dump dot,actionlabels (edge replay)  *)
(*   MC_SemaphoreLive.cfg  SPECIFICATION Spec (with fairness), temporal    *)
(*                         properties, no state constraint                 *)
(***************************************************************************)
EXTENDS Semaphore
=============================================================================
