----------------------- MODULE TraceSchemaEvolution -----------------------
(***************************************************************************)
(* Trace validation (code -> spec) for the linter, stateless parallel      *)
(* form: every recorded call {old, new, verdict, steps} of the real        *)
(* CheckBackwardCompatibility is one initial state and must be a behaviour *)
(* the specification allows:                                               *)
(*   Sound          verdict = "accept" => WireCompatible(old, new)   (C28) *)
(*   SafeAccepted   steps is a chain of documented safe edits from old to  *)
(*                  new; such a pair is wire compatible and must be        *)
(*                  accepted                                         (C29) *)
(*   UnsafeRejected new is old after one documented unsafe edit and must   *)
(*                  be rejected                                      (C30) *)
(* X is the invariant proper (TLC stops at the first offending event);     *)
(* XAll evaluates the same predicate on every event and prints the index   *)
(* of each event violating it, so that one run yields all of them.         *)
(***************************************************************************)
EXTENDS SchemaEvolution

Trace == ndJsonDeserialize("trace.ndjson")

VARIABLE i
Init == i \in 1..Len(Trace)
Next == UNCHANGED i

Bad == PrintT(ToJson(<<"@@", [bad |-> i]>>))

SoundEvent(e) == e.verdict = "accept" => WireCompatible(e.old, e.new)
Sound == SoundEvent(Trace[i])
SoundAll == SoundEvent(Trace[i]) \/ Bad

SafeChain(e) ==
  /\ \A k \in 1..Len(e.steps) :
        e.steps[k] \in {r.s : r \in SafeEdits(e.old, IF k = 1 THEN e.old ELSE e.steps[k - 1])}
  /\ e.new = IF Len(e.steps) = 0 THEN e.old ELSE e.steps[Len(e.steps)]
SafeAcceptedEvent(e) == SafeChain(e) /\ WireCompatible(e.old, e.new) /\ e.verdict = "accept"
SafeAccepted == SafeAcceptedEvent(Trace[i])
SafeAcceptedAll == SafeAcceptedEvent(Trace[i]) \/ Bad

(* not a property: prints the wire cases of every recorded pair (cross-check with generated code) *)
WireAll == PrintT(ToJson(<<"@@", [i |-> i, wc |-> WireCompatible(Trace[i].old, Trace[i].new), cases |-> WireCases(Trace[i].old, Trace[i].new)]>>))

UnsafeRejectedEvent(e) == e.new \in {r.s : r \in DocUnsafeEdits(e.old, e.old)} /\ e.verdict = "reject"
UnsafeRejected == UnsafeRejectedEvent(Trace[i])
UnsafeRejectedAll == UnsafeRejectedEvent(Trace[i]) \/ Bad
=============================================================================
