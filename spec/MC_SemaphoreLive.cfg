CONSTANTS
  NP = @NP@
  Weights = @WEIGHTS@
  Sizes = @SIZES@
  MaxForced = @MAXFORCED@
SPECIFICATION Spec
INVARIANTS TypeOK QueueConsistent Accounting HeadBlocked
PROPERTIES NoOverAdmit FIFO HeadEventuallyAdmitted ReadyEventuallyHolds HeadNotStarved
CHECK_DEADLOCK TRUE
