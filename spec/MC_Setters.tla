------------------------------ MODULE MC_Setters ------------------------------
(***************************************************************************)
(* Generated field accessors (SetX / ClearX / IsSetX) as actions on the    *)
(* abstract object (C43).  Set(i, x): the field holds x and is present,    *)
(* its local field-mask bit is set (TL1) and its TL2 presence is set;      *)
(* Clear(i): the field is absent and empty, the bit cleared.  TLC explores *)
(* every sequence of up to K accessor calls on every eligible field of     *)
(* every top-level struct of the corpus (starting from the default value   *)
(* and from a value with every eligible field set) and checks that a call  *)
(* changes nothing but its field and its mask bit (FrameOther), that the   *)
(* field is then present / absent in all three encodings, and prints the   *)
(* call sequence with the expected observations for replay through the     *)
(* real accessors.                                                         *)
(* Eligible: optional fields of primitive or true type whose presence is a *)
(* TL2 optional, or a bit of a LOCAL, unmasked # field not shared with     *)
(* another field (shared bits couple siblings by the format itself).       *)
(***************************************************************************)
EXTENDS TLJson

CONSTANT K

VARIABLE st      \* [tn, v, ops]

Tops == {TopNames[i] : i \in 1..Len(TopNames)}
StructTops == {n \in Tops : TY(n).k = "struct" /\ ~TY(n).typedef}

MaskIdx(f) == f.mask.i + 1
Eligible(t, i) ==
  LET f == t.fields[i] IN
  /\ IsOpt(f) /\ ~f.omit
  /\ (f.isbit \/ (TY(f.t).k = "prim" /\ TY(f.t).prim \notin {"bit"}))
  /\ \/ (f.mask.k = "none" /\ f.tl2bit >= 0)
     \/ /\ f.mask.k = "field"
        /\ ~IsOpt(t.fields[MaskIdx(f)])
        /\ \A j \in 1..Len(t.fields) : (j # i /\ t.fields[j].mask.k = "field" /\ t.fields[j].mask.i = f.mask.i) => t.fields[j].bit # f.bit
        \* the mask field must not also be a size or an argument of a later field
        /\ \A j \in 1..Len(t.fields) : \A a \in 1..Len(t.fields[j].na) :
               ~(t.fields[j].na[a].k = "field" /\ t.fields[j].na[a].i = f.mask.i)
Elig(tn) == {i \in 1..Len(TY(tn).fields) : Eligible(TY(tn), i)}

SetVals(f) == IF f.isbit THEN {<<>>}
              ELSE LET d == PrimDom(TY(f.t).prim) dv == Default(f.t, <<>>) IN
                   {dv} \cup {CHOOSE x \in d : x # dv}

DoSet(t, v, i, x) ==
  LET f == t.fields[i]
      v1 == [v EXCEPT ![i] = Pres(x)]
  IN IF f.mask.k = "field" THEN [v1 EXCEPT ![MaskIdx(f)] = SetBit(@, f.bit, TRUE)] ELSE v1
DoClear(t, v, i) ==
  LET f == t.fields[i]
      v1 == [v EXCEPT ![i] = Absent]
  IN IF f.mask.k = "field" THEN [v1 EXCEPT ![MaskIdx(f)] = SetBit(@, f.bit, FALSE)] ELSE v1

RECURSIVE SetAll(_, _, _)
SetAll(t, v, S) == IF S = {} THEN v
                   ELSE LET i == CHOOSE x \in S : TRUE IN
                        SetAll(t, DoSet(t, v, i, CHOOSE x \in SetVals(t.fields[i]) : TRUE), S \ {i})

(* ---- accessors of a nested struct whose field mask is an OUTER parameter fed by a field of the parent:  *)
(* SetX(v, &parent.mask) / ClearX(&parent.mask) set / clear the bit in the parent's # field; called with  *)
(* a nil mask pointer they touch the value and the TL2 presence only.                                     *)
NestedElig(tn) ==
  LET t == TY(tn) IN
  { <<j, i>> \in (1..Len(t.fields)) \X (1..8) :
      LET fj == t.fields[j] IN
      /\ ~IsOpt(fj) /\ fj.bare /\ TY(fj.t).k = "struct" /\ ~TY(fj.t).typedef /\ TY(fj.t).tl2
      /\ i <= Len(TY(fj.t).fields)
      /\ LET ct == TY(fj.t)  c == ct.fields[i] IN
         /\ c.mask.k = "param" /\ ~c.omit
         /\ (c.isbit \/ (TY(c.t).k = "prim" /\ TY(c.t).prim # "bit"))
         /\ c.mask.i + 1 <= Len(fj.na) /\ fj.na[c.mask.i + 1].k = "field"
         /\ LET m == fj.na[c.mask.i + 1].i + 1 IN
            /\ ~IsOpt(t.fields[m])
            /\ \A i2 \in 1..Len(ct.fields) : (i2 # i /\ ct.fields[i2].mask.k = "param" /\ ct.fields[i2].mask.i = c.mask.i) => ct.fields[i2].bit # c.bit
            /\ \A j2 \in 1..Len(t.fields) : ~(t.fields[j2].mask.k = "field" /\ t.fields[j2].mask.i + 1 = m)
            \* the parent's # must feed this child only, and only as this mask
            /\ \A j2 \in 1..Len(t.fields) : \A a \in 1..Len(t.fields[j2].na) :
                   (t.fields[j2].na[a].k = "field" /\ t.fields[j2].na[a].i + 1 = m) => (j2 = j /\ a = c.mask.i + 1)
            /\ \A i2 \in 1..Len(ct.fields) : \A a \in 1..Len(ct.fields[i2].na) :
                   ~(ct.fields[i2].na[a].k = "param" /\ ct.fields[i2].na[a].i = c.mask.i) }
NMask(t, j, i) == t.fields[j].na[TY(t.fields[j].t).fields[i].mask.i + 1].i + 1
DoSetN(t, v, j, i, x, wm) ==
  LET c == TY(t.fields[j].t).fields[i]
      v1 == [v EXCEPT ![j] = [@ EXCEPT ![i] = Pres(x)]]
  IN IF wm THEN [v1 EXCEPT ![NMask(t, j, i)] = SetBit(@, c.bit, TRUE)] ELSE v1
DoClearN(t, v, j, i, wm) ==
  LET c == TY(t.fields[j].t).fields[i]
      v1 == [v EXCEPT ![j] = [@ EXCEPT ![i] = Absent]]
  IN IF wm THEN [v1 EXCEPT ![NMask(t, j, i)] = SetBit(@, c.bit, FALSE)] ELSE v1

Init == \E n \in StructTops :
          /\ (Elig(n) # {} \/ NestedElig(n) # {})
          /\ st \in {[tn |-> n, v |-> Default(n, <<>>), ops |-> <<>>, start |-> "default"],
                     [tn |-> n, v |-> SetAll(TY(n), Default(n, <<>>), Elig(n)), ops |-> <<>>, start |-> "allset"]}

Set(i, x) == st' = [st EXCEPT !.v = DoSet(TY(st.tn), st.v, i, x),
                              !.ops = Append(@, [op |-> "set", f |-> TY(st.tn).fields[i].n, i |-> i, x |-> x, bit |-> TY(st.tn).fields[i].isbit, parent |-> "", mask |-> ""])]
Clear(i) == st' = [st EXCEPT !.v = DoClear(TY(st.tn), st.v, i),
                             !.ops = Append(@, [op |-> "clear", f |-> TY(st.tn).fields[i].n, i |-> i, x |-> <<>>, bit |-> TY(st.tn).fields[i].isbit, parent |-> "", mask |-> ""])]
SetN(j, i, x, wm) ==
  LET t == TY(st.tn)  c == TY(t.fields[j].t).fields[i] IN
  st' = [st EXCEPT !.v = DoSetN(t, st.v, j, i, x, wm),
                   !.ops = Append(@, [op |-> "setn", f |-> c.n, i |-> i, x |-> x, bit |-> c.isbit,
                                      parent |-> t.fields[j].n, mask |-> IF wm THEN t.fields[NMask(t, j, i)].n ELSE ""])]
ClearN(j, i, wm) ==
  LET t == TY(st.tn)  c == TY(t.fields[j].t).fields[i] IN
  st' = [st EXCEPT !.v = DoClearN(t, st.v, j, i, wm),
                   !.ops = Append(@, [op |-> "clearn", f |-> c.n, i |-> i, x |-> <<>>, bit |-> c.isbit,
                                      parent |-> t.fields[j].n, mask |-> IF wm THEN t.fields[NMask(t, j, i)].n ELSE ""])]
Next == /\ Len(st.ops) < K
        /\ \/ \E i \in Elig(st.tn) : (\E x \in SetVals(TY(st.tn).fields[i]) : Set(i, x)) \/ Clear(i)
           \/ \E p \in NestedElig(st.tn), wm \in BOOLEAN :
                 (\E x \in SetVals(TY(TY(st.tn).fields[p[1]].t).fields[p[2]]) : SetN(p[1], p[2], x, wm)) \/ ClearN(p[1], p[2], wm)

---------------------------------------------------------------------------
Obs(tn, v) ==
  LET t == TY(tn) IN
  [isset |-> [i \in Elig(tn) |-> IsP(v[i])],
   names |-> [i \in Elig(tn) |-> t.fields[i].n],
   nested |-> { [parent |-> t.fields[p[1]].n, f |-> TY(t.fields[p[1]].t).fields[p[2]].n, set |-> IsP(v[p[1]][p[2]])] : p \in NestedElig(tn) },
   tl1 |-> IF t.origin2 THEN <<>> ELSE Enc1(tn, <<>>, v, TRUE).b,
   hastl2 |-> t.tl2,
   tl2 |-> IF t.tl2 THEN Enc2(tn, v, FALSE) ELSE <<>>,
   json |-> WJ(tn, <<>>, v, "canon")]
Emit == PrintT(ToJson(<<"@@", [tn |-> st.tn, start |-> st.start, origin2 |-> TY(st.tn).origin2,
                              startTL1 |-> IF TY(st.tn).origin2 THEN <<>> ELSE Enc1(st.tn, <<>>, IF st.start = "default" THEN Default(st.tn, <<>>) ELSE SetAll(TY(st.tn), Default(st.tn, <<>>), Elig(st.tn)), TRUE).b,
                              ops |-> st.ops, obs |-> Obs(st.tn, st.v)]>>))

(* an accessor call changes its own field and its own mask bit only *)
FrameOther ==
  [][\A j \in 1..Len(TY(st.tn).fields) :
        LET o == st'.ops[Len(st'.ops)]
            f == TY(st.tn).fields[o.i] IN
        (o.parent = "" /\ j # o.i /\ ~(f.mask.k = "field" /\ j = MaskIdx(f))) => st'.v[j] = st.v[j]]_st
(* after Set the field is decoded back as present with that value from TL1 and TL2, after Clear as absent *)
Effect ==
  Len(st.ops) > 0 /\ st.ops[Len(st.ops)].parent = "" =>
    LET o == st.ops[Len(st.ops)]  t == TY(st.tn)
        want == IF o.op = "set" THEN Pres(o.x) ELSE Absent
        e1 == Enc1(st.tn, <<>>, st.v, TRUE)
        e2 == Enc2(st.tn, st.v, FALSE) IN
    /\ st.v[o.i] = want
    /\ ~t.origin2 => (e1.ok /\ Dec1(st.tn, <<>>, e1.b, 1, TRUE).v[o.i] = want)
    /\ t.tl2 => Dec2(st.tn, e2, 1, Len(e2)).v[o.i] = want
=============================================================================
