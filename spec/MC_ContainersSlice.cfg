CONSTANTS
  Keys = {1}
  Vals = {1}
  LeafH = 0
  MaxCap = @MAXCAP@
  ReserveSet = @RESERVE@
  ValMod = @VALMOD@
  PairCap = @PAIRCAP@
INIT Init
NEXT Next
INVARIANTS SliceRefines SliceObsAgree CapBound
CHECK_DEADLOCK FALSE
