CONSTANTS
  MaxAckSet = 50
  Points = @POINTS@
  Combs = @COMBS@
  Bound = @BOUND@
INIT Init
NEXT Next
INVARIANTS Emit Exact Represented Canonical AckSound NackSound CutOffs AckComplete NackComplete
CHECK_DEADLOCK FALSE
