CONSTANTS
  MaxAckSet = 50
  Modes <- @MODES@
INIT Init
NEXT Next
INVARIANTS Emit Exact Represented Canonical AckSound NackSound CutOffs AckComplete NackComplete
CHECK_DEADLOCK FALSE
