CONSTANTS
  Lens = @LENS@
  Fills = {0, 65, 255}
  SizeVals = @SIZES@
  MaxBits = @MAXBITS@
INIT Init
NEXT Next
INVARIANTS Emit RoundTrip AppendIgnored TruncIsEOF NonMinTL1Rejected NonMinTL2Accepted PadRejected SizeRoundTrip BitsRoundTrip Aligned1
CHECK_DEADLOCK FALSE
