CONSTANTS
  MaxKey = @MAXKEY@
  Keys <- TraceKeys
  Vals = {1}
  LeafH = @LEAFH@
INIT TraceInit
NEXT TraceNext
POSTCONDITION TraceAccepted
CHECK_DEADLOCK FALSE
