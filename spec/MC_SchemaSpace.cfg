CONSTANTS
  MaxCombs = @MAXCOMBS@
  MaxFields = @MAXFIELDS@
  Namespaces = @NAMESPACES@
  NameMenu <- @NAMEMENU@
  UnionMenu <- @UNIONMENU@
  FuncNames = @FUNCNAMES@
  FieldNames <- @FIELDNAMES@
  Kinds <- @KINDS@
  MaskBits = @MASKBITS@
  TagKinds = @TAGKINDS@
  Mutations <- @MUTATIONS@
  AllowTL2 = @TL2@
  OptRows = @OPTROWS@
  MaxTags = 0
  BaseIds = {}
INIT Init14
NEXT Next14
INVARIANTS Emit MutationBreaks GrowthKeeps
CHECK_DEADLOCK FALSE
