CONSTANTS
  MaxPkts = @MAXPKTS@
  Shapes = @SHAPES@
  Cryptos = @CRYPTOS@
  EveryK = @EVERYK@
  SingleCuts = "@SINGLECUTS@"
  CorrEveryK = @CORREVERYK@
  LenMasks = @LENMASKS@
  PadKs = @PADKS@
  Plans = @PLANS@
INIT Init
NEXT Next
INVARIANTS Emit HandshakeClosedForm RoundTrip CorruptionDetected InOrder NoUnknown WriterShape ClassUniform FlipBehindGarbleUnread
CHECK_DEADLOCK FALSE
