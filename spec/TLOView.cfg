INIT Init
NEXT Next
INVARIANTS Emit Sane
CHECK_DEADLOCK FALSE
