---------------------------- MODULE SchemaSpace ----------------------------
(***************************************************************************)
(* TL schemas as a state machine (DESIGN 4.2).  The state is the source-   *)
(* level schema: a sequence of combinators (constructors of types, and     *)
(* functions) over a fixed standard prelude (int, long, string, vector,    *)
(* tuple, true, Bool, Maybe, dictionary, dictionaryAny, pair), which the   *)
(* harness prepends when it renders the schema as text.  Actions grow the  *)
(* schema (AddStruct, AddTemplate, AddVariant, AddFunction, AddField),     *)
(* assign explicit tags (SetExplicitTag) or break it (Mutate).              *)
(*                                                                         *)
(* Names are atomic strings taken from menus; a combinator is              *)
(*   [kind, ns, cn, tn, targs, fields, res, tag, tl2]                      *)
(*   kind  : "struct" | "variant" | "func"                                 *)
(*   ns    : namespace ("" = none), cn: constructor/function name,         *)
(*   tn    : type name (constructors) ; "" for functions                   *)
(*   targs : sequence of "type" | "nat"  (template parameters t1.., n1..)  *)
(*   fields: sequence of [n, k, a, b, bare]   (see Shapes below)           *)
(*   res   : function result [k, a]                                        *)
(*   tag   : [k, a, b] explicit tag choice, k = "none" means implicit      *)
(*   tl2   : declared in the TL2 file (magic instead of tag)               *)
(*                                                                         *)
(* Tags are SYMBOLIC: crc(i) is the implicit CRC32 of combinator i (value  *)
(* supplied by the harness, which also checks that the concretisation is   *)
(* injective), fresh(n) an unused constant, zero is 0, xor(i,j) the XOR of *)
(* the tags of i and j (used to provoke TLO type-name collisions).         *)
(***************************************************************************)
EXTENDS Integers, Sequences, FiniteSets, TLC

CONSTANTS
  MaxCombs,      \* user combinators per schema
  MaxFields,     \* fields per combinator
  Namespaces,    \* set of namespace strings
  NameMenu,      \* set of [cn, tn] for plain structs
  UnionMenu,     \* set of [tn, vs] : type name and sequence of variant constructor names
  FuncNames,     \* set of function names
  FieldNames,    \* set of field names
  Kinds,         \* set of enabled field kinds
  MaskBits,      \* bits usable in field masks
  TagKinds,      \* enabled explicit tag choices: subset of {"zero","copy","crc","fresh","xor"}
  Mutations,     \* enabled mutations
  AllowTL2       \* BOOLEAN: TL2-declared combinators with magics

VARIABLES schema, mut

NoTag == [k |-> "none", a |-> 0, b |-> 0]
Fld(n, k, a, b, bare) == [n |-> n, k |-> k, a |-> a, b |-> b, bare |-> bare]

SimpleKinds == {"nat", "int", "long", "string", "bool", "double"}

Idx == 1..Len(schema)
IsCtor(c) == c.kind \in {"struct", "variant"}
FullName(c) == <<c.ns, c.cn>>
NatFieldsBefore(c, pos) == {i \in 1..(pos - 1) : c.fields[i].k = "nat"}
NatParams(c)  == {i \in 1..Len(c.targs) : c.targs[i] = "nat"}
TypeParams(c) == {i \in 1..Len(c.targs) : c.targs[i] = "type"}
UsedFieldNames(c) == {c.fields[i].n : i \in 1..Len(c.fields)}
UsedNames == {FullName(schema[i]) : i \in Idx}

(* a namespace lives entirely in the TL1 file or entirely in the TL2 file *)
NsFits(ns, tl2) == \A j \in Idx : (ns # "" /\ schema[j].ns = ns) => schema[j].tl2 = tl2

Init == schema = <<>> /\ mut = "none"

Comb(kind, ns, cn, tn, targs, res, tl2) ==
  [kind |-> kind, ns |-> ns, cn |-> cn, tn |-> tn, targs |-> targs, fields |-> <<>>,
   res |-> res, tag |-> NoTag, tl2 |-> tl2]
NoRes == [k |-> "", a |-> 0]

AddStruct ==
  /\ mut = "none"
  /\ Len(schema) < MaxCombs
  /\ \E ns \in Namespaces, nm \in NameMenu, tl2 \in (IF AllowTL2 THEN BOOLEAN ELSE {FALSE}) :
       /\ <<ns, nm.cn>> \notin UsedNames /\ NsFits(ns, tl2)
       /\ schema' = Append(schema, Comb("struct", ns, nm.cn, nm.tn, <<>>, NoRes, tl2))
  /\ UNCHANGED mut

AddTemplate ==
  /\ mut = "none"
  /\ Len(schema) < MaxCombs
  /\ "tinst" \in Kinds
  /\ \E ns \in Namespaces, nm \in NameMenu, ta \in {<<"type">>, <<"nat">>, <<"type", "nat">>} :
       /\ <<ns, nm.cn>> \notin UsedNames /\ NsFits(ns, FALSE)
       /\ schema' = Append(schema, Comb("struct", ns, nm.cn, nm.tn, ta, NoRes, FALSE))
  /\ UNCHANGED mut

(* the next constructor of a union type; the first one creates the type *)
AddVariant ==
  /\ mut = "none"
  /\ Len(schema) < MaxCombs
  /\ \E ns \in Namespaces, u \in UnionMenu :
       LET have == {i \in Idx : schema[i].kind = "variant" /\ schema[i].ns = ns /\ schema[i].tn = u.tn}
           k == Cardinality(have) + 1
       IN /\ k <= Len(u.vs)
          /\ <<ns, u.vs[k]>> \notin UsedNames /\ NsFits(ns, FALSE)
          /\ schema' = Append(schema, Comb("variant", ns, u.vs[k], u.tn, <<>>, NoRes, FALSE))
  /\ UNCHANGED mut

ResultChoices ==
  {[k |-> "int", a |-> 0], [k |-> "bool", a |-> 0], [k |-> "vecint", a |-> 0]}
    \cup {[k |-> "ref", a |-> j] : j \in {i \in Idx : IsCtor(schema[i]) /\ Len(schema[i].targs) = 0 /\ ~schema[i].tl2}}

(* results of a function declared in the TL2 file: builtin, array, nothing, or a TL2 struct *)
TL2ResultChoices ==
  {[k |-> "int", a |-> 0], [k |-> "bool", a |-> 0], [k |-> "vecint", a |-> 0], [k |-> "none", a |-> 0]}
    \cup {[k |-> "ref", a |-> j] : j \in {i \in Idx : schema[i].kind = "struct" /\ schema[i].tl2}}

(* a TL2 function must carry a magic: it is born with a fresh one *)
AddFunction ==
  /\ mut = "none"
  /\ Len(schema) < MaxCombs
  /\ \E ns \in Namespaces, fnm \in FuncNames, tl2 \in (IF AllowTL2 THEN BOOLEAN ELSE {FALSE}) :
       \E r \in (IF tl2 THEN TL2ResultChoices ELSE ResultChoices) :
         /\ <<ns, fnm>> \notin UsedNames /\ NsFits(ns, tl2)
         /\ schema' = Append(schema,
               [Comb("func", ns, fnm, "", <<>>, r, tl2) EXCEPT
                  !.tag = IF tl2 THEN [k |-> "fresh", a |-> Len(schema) + 1, b |-> 0] ELSE NoTag])
  /\ UNCHANGED mut

(* field shapes that are well-formed at the end of combinator c of the     *)
(* current schema (index ci)                                               *)
Shapes(ci) ==
  LET c == schema[ci]
      pos == Len(c.fields) + 1
      nats == NatFieldsBefore(c, pos)
      refs == {j \in Idx : j # ci /\ IsCtor(schema[j]) /\ Len(schema[j].targs) = 0 /\ ~schema[j].tl2}
      tmpls == {j \in Idx : j # ci /\ IsCtor(schema[j]) /\ Len(schema[j].targs) > 0}
  IN  {[k |-> k, a |-> 0, b |-> 0, bare |-> FALSE] : k \in SimpleKinds \cap Kinds}
   \cup {[k |-> k, a |-> m, b |-> bit, bare |-> FALSE] : k \in {"mtrue", "mint"} \cap Kinds, m \in nats, bit \in MaskBits}
   \cup {[k |-> k, a |-> j, b |-> 0, bare |-> FALSE] : k \in {"vec", "maybe"} \cap Kinds, j \in {0} \cup refs}
   \cup {[k |-> "arr", a |-> m, b |-> 0, bare |-> FALSE] : m \in IF "arr" \in Kinds THEN nats ELSE {}}
   \cup {[k |-> k, a |-> 3, b |-> 0, bare |-> FALSE] : k \in {"arrc", "tuplec"} \cap Kinds}
   \cup {[k |-> "ref", a |-> j, b |-> 0, bare |-> bare] : j \in IF "ref" \in Kinds THEN refs ELSE {}, bare \in BOOLEAN}
   \cup {[k |-> "rec", a |-> m, b |-> bit, bare |-> TRUE] :
           m \in IF "rec" \in Kinds /\ IsCtor(c) /\ Len(c.targs) = 0 THEN nats ELSE {}, bit \in MaskBits}
   \cup {[k |-> k, a |-> 0, b |-> 0, bare |-> FALSE] : k \in {"dict", "dictany", "pair"} \cap Kinds}
   \cup {[k |-> "tinst", a |-> j, b |-> 0, bare |-> FALSE] : j \in IF "tinst" \in Kinds THEN tmpls ELSE {}}
   \cup {[k |-> "tparam", a |-> i, b |-> 0, bare |-> FALSE] : i \in IF "tinst" \in Kinds THEN TypeParams(c) ELSE {}}
   \cup {[k |-> "nparr", a |-> i, b |-> 0, bare |-> FALSE] : i \in IF "tinst" \in Kinds THEN NatParams(c) ELSE {}}
   \cup {[k |-> "npmask", a |-> i, b |-> bit, bare |-> FALSE] : i \in IF "tinst" \in Kinds THEN NatParams(c) ELSE {}, bit \in MaskBits}

AddField ==
  /\ mut = "none"
  /\ \E ci \in Idx :
       /\ Len(schema[ci].fields) < MaxFields
       /\ ~schema[ci].tl2 \/ Len(schema[ci].targs) = 0
       /\ \E fname \in FieldNames \ UsedFieldNames(schema[ci]), sh \in Shapes(ci) :
            /\ schema[ci].tl2 => sh.k \in {"int", "long", "string"}
            /\ schema' = [schema EXCEPT ![ci].fields = Append(@, Fld(fname, sh.k, sh.a, sh.b, sh.bare))]
  /\ UNCHANGED mut

---------------------------------------------------------------------------
(* explicit tags *)
TagChoices(ci) ==
  LET plain == {j \in Idx : j # ci /\ schema[j].tag.k \in {"none", "fresh"}} IN
     {[k |-> "zero", a |-> 0, b |-> 0] : x \in IF "zero" \in TagKinds THEN {1} ELSE {}}
  \cup {[k |-> "copy", a |-> j, b |-> 0] : j \in IF "copy" \in TagKinds THEN {j \in plain : ~(schema[j].tl2 /\ schema[j].tag.k = "none")} ELSE {}}
  \cup {[k |-> "crc", a |-> j, b |-> 0] : j \in IF "crc" \in TagKinds THEN {j \in Idx : ~schema[j].tl2} ELSE {}}
  \cup {[k |-> "fresh", a |-> ci, b |-> 0] : x \in IF "fresh" \in TagKinds THEN {1} ELSE {}}
  \cup {[k |-> "xor", a |-> p[1], b |-> p[2]] :
          p \in IF "xor" \in TagKinds
                THEN {q \in plain \X plain : q[1] < q[2] /\ ~schema[q[1]].tl2 /\ ~schema[q[2]].tl2}
                ELSE {}}

SetExplicitTag ==
  /\ \E ci \in Idx :
       /\ schema[ci].tag.k = "none"
       \* nobody refers to ci's tag yet (keeps copy/xor chains one level deep)
       /\ \A j \in Idx : ~(schema[j].tag.k \in {"copy", "xor"} /\ (schema[j].tag.a = ci \/ schema[j].tag.b = ci))
       /\ \E t \in TagChoices(ci) : schema' = [schema EXCEPT ![ci].tag = t]
  /\ UNCHANGED mut

(* symbolic effective tag of combinator i; a TL2 combinator without magic has none *)
RECURSIVE Eff(_)
Eff(i) ==
  LET t == schema[i].tag IN
  CASE t.k = "none"  -> IF schema[i].tl2 THEN [k |-> "absent", a |-> i, b |-> 0] ELSE [k |-> "crc", a |-> i, b |-> 0]
    [] t.k = "zero"  -> [k |-> "zero", a |-> 0, b |-> 0]
    [] t.k = "copy"  -> Eff(t.a)
    [] t.k = "crc"   -> [k |-> "crc", a |-> t.a, b |-> 0]
    [] t.k = "fresh" -> [k |-> "fresh", a |-> t.a, b |-> 0]
    [] t.k = "xor"   -> [k |-> "xor", a |-> t.a, b |-> t.b]

Tagged == {i \in Idx : Eff(i).k # "absent"}
TagsOK ==
  /\ \A i \in Tagged : Eff(i).k # "zero"
  /\ \A i, j \in Tagged : i # j => Eff(i) # Eff(j)

---------------------------------------------------------------------------
(* mutations: one per schema, each produces an ill-formed schema *)
MutDupField ==
  \E ci \in Idx : /\ Len(schema[ci].fields) >= 1 /\ ~schema[ci].tl2
                  /\ schema' = [schema EXCEPT ![ci].fields = Append(@, Fld(schema[ci].fields[1].n, "int", 0, 0, FALSE))]
MutUnknownRef ==
  \E ci \in Idx : /\ ~schema[ci].tl2
                  /\ schema' = [schema EXCEPT ![ci].fields = Append(@, Fld("zz", "unknown", 0, 0, FALSE))]
MutMaskNonNat ==
  \E ci \in Idx : \E m \in {i \in 1..Len(schema[ci].fields) : schema[ci].fields[i].k \in {"int", "string", "long"}} :
                  /\ ~schema[ci].tl2
                  /\ schema' = [schema EXCEPT ![ci].fields = Append(@, Fld("zz", "mint", m, 0, FALSE))]
MutMaskForward ==
  \E ci \in Idx : /\ ~schema[ci].tl2
                  /\ schema' = [schema EXCEPT ![ci].fields = @ \o <<Fld("zz", "mint", Len(schema[ci].fields) + 2, 0, FALSE),
                                                                    Fld("zm", "nat", 0, 0, FALSE)>>]
MutBit32 ==
  \E ci \in Idx : \E m \in NatFieldsBefore(schema[ci], Len(schema[ci].fields) + 1) :
                  /\ ~schema[ci].tl2
                  /\ schema' = [schema EXCEPT ![ci].fields = Append(@, Fld("zz", "mint", m, 32, FALSE))]
MutDupComb ==
  \E ci \in Idx : ~schema[ci].tl2 /\ schema' = Append(schema, schema[ci])
MutSelfBare ==
  \E ci \in Idx : /\ IsCtor(schema[ci]) /\ Len(schema[ci].targs) = 0 /\ ~schema[ci].tl2
                  /\ schema' = [schema EXCEPT ![ci].fields = Append(@, Fld("zz", "selfbare", 0, 0, TRUE))]
MutArity ==
  \E ci \in Idx : /\ ~schema[ci].tl2
                  /\ schema' = [schema EXCEPT ![ci].fields = Append(@, Fld("zz", "badarity", 0, 0, FALSE))]
MutNatForType ==
  \E ci \in Idx : /\ ~schema[ci].tl2
                  /\ schema' = [schema EXCEPT ![ci].fields = Append(@, Fld("zz", "natfortype", 0, 0, FALSE))]
MutUpperCtor ==
  \E ci \in Idx : /\ ~schema[ci].tl2 /\ IsCtor(schema[ci])
                  /\ schema' = [schema EXCEPT ![ci].kind = "upperctor"]
MutSyntax ==
  \E ci \in Idx : /\ ~schema[ci].tl2
                  /\ schema' = [schema EXCEPT ![ci].kind = "nosemicolon"]

Mutate ==
  /\ mut = "none" /\ Len(schema) >= 1
  /\ \E m \in Mutations :
       /\ mut' = m
       /\ CASE m = "dupfield"    -> MutDupField
            [] m = "unknownref"  -> MutUnknownRef
            [] m = "masknonnat"  -> MutMaskNonNat
            [] m = "maskforward" -> MutMaskForward
            [] m = "bit32"       -> MutBit32
            [] m = "dupcomb"     -> MutDupComb
            [] m = "selfbare"    -> MutSelfBare
            [] m = "arity"       -> MutArity
            [] m = "natfortype"  -> MutNatForType
            [] m = "upperctor"   -> MutUpperCtor
            [] m = "syntax"      -> MutSyntax

Next == AddStruct \/ AddTemplate \/ AddVariant \/ AddFunction \/ AddField \/ SetExplicitTag \/ Mutate

---------------------------------------------------------------------------
(* well-formedness, decided structurally (not by remembering the mutation) *)
FieldOK(c, pos) ==
  LET f == c.fields[pos] IN
  /\ \A q \in 1..(pos - 1) : c.fields[q].n # f.n
  /\ f.k \notin {"unknown", "selfbare", "badarity", "natfortype"}
  /\ f.k \in {"mtrue", "mint", "rec", "arr"} => f.a \in NatFieldsBefore(c, pos)
  /\ f.k \in {"mtrue", "mint", "rec", "npmask"} => f.b \in 0..31

CombOK(i) ==
  LET c == schema[i] IN
  /\ c.kind \in {"struct", "variant", "func"}
  /\ (c.tl2 /\ c.kind = "func") => c.tag.k # "none"
  \* a namespace is defined entirely in the TL1 file or entirely in the TL2 file
  /\ \A j \in Idx : (c.ns # "" /\ schema[j].ns = c.ns) => schema[j].tl2 = c.tl2
  /\ \A j \in Idx : j # i => FullName(schema[j]) # FullName(c)
  /\ \A pos \in 1..Len(c.fields) : FieldOK(c, pos)

WellFormed == \A i \in Idx : CombOK(i)
Accepted == Len(schema) >= 1 /\ WellFormed /\ TagsOK

(* consistency of the two views of "broken" *)
MutationBreaks == mut # "none" => ~WellFormed
GrowthKeeps    == mut = "none" => WellFormed
=============================================================================
