CONSTANTS
  MaxWorkers = @WORKERS@
  MemLimit = @MEMLIMIT@
  BufSize = @BUFSIZE@
  Conns = @CONNS@
  HdrLen = 24
INIT TInit
NEXT TNext
INVARIANTS WorkerBoundP MemBoundP
POSTCONDITION Accepted
CHECK_DEADLOCK FALSE
