---------------------------- MODULE UdpTransport ----------------------------
(***************************************************************************)
(* Reliable UDP transport of pkg/rpc/udp (transport.go, outgoing.go,       *)
(* incoming.go, acks.go) as driven by the deterministic multi-transport    *)
(* simulator of fuzz_transport.go.  One action per simulator command:      *)
(*                                                                         *)
(*   NewMessage  'n'   ConnectTo + SendMessage                             *)
(*   Write       'w'   one goWrite iteration: consume the headers passed   *)
(*                     by the reader, apply resend requests, slice queued  *)
(*                     messages into chunks, emit at most one datagram     *)
(*   Read        'r'   one goRead iteration on datagram i of the network   *)
(*   EncHdr      'e'   pass one parsed header from the reader to goWrite   *)
(*   Timer       't'   resend / ack / resend-request timer expiration      *)
(*   Dup, Loss   'd' 'l'  network faults                                   *)
(*   Settle            no more submissions and no more faults              *)
(*                                                                         *)
(* Connections are the pairs <<a, b>> with a < b; a is the active side and *)
(* the only one that submits messages (the simulator skips the others), so *)
(* chunks travel a -> b and acknowledgements b -> a.                       *)
(*                                                                         *)
(* Two layers.  The DATA PLANE (queues, windows, acknowledgement sets,     *)
(* memory accounting, network, header hand-over) is deterministic once the *)
(* contents of the emitted datagram are chosen; it is the part that is     *)
(* bound to the implementation by trace validation.  The SCHEDULING layer  *)
(* (send queue, chunks eligible for (re)sending, armed timers) says when a *)
(* datagram may be emitted; it is an abstraction of the code's four        *)
(* sequence-number pointers and timer queues, enforced only when Sched is  *)
(* TRUE (model checking: finiteness and liveness).  A resend request read  *)
(* by goRead acts on it directly (the code hands it to goWrite without the *)
(* 'e' step); the three timers are: resend (armed while chunks are in      *)
(* flight), ack (armed by a read that accepted data), resend request       *)
(* (armed while the ack builder knows a hole).                             *)
(***************************************************************************)
EXTENDS Integers, Sequences, FiniteSets, TLC

CONSTANTS
  NT,           \* number of transports, ids 0 .. NT-1
  MemLimit,     \* incomingMessagesMemoryLimit of every transport
  MaxWin,       \* maxIncomingWindowSize
  MaxMsgs,      \* bound on submissions   (environment)
  MaxFaults,    \* bound on Dup + Loss     (environment)
  MaxNet,       \* capacity of one transport's inbound network
  MaxHdr,       \* capacity of the reader -> writer header queue
  MaxBurst,     \* chunks per datagram / messages sliced per write step
  Sched,        \* BOOLEAN: scheduling layer enforced
  Patient,      \* BOOLEAN: resend / resend-request timers expire only when nothing of the
                \* connection is in flight (time-out longer than a round trip)
  MaxAckSet,    \* acks.go MaxAckSet: explicit acks beyond the first range
  ChunkCounts(_) \* admissible chunk counts of a message of a given size

Transports == 0 .. (NT - 1)
Conns      == {c \in Transports \X Transports : c[1] < c[2]}
ConnOf(t, p) == IF t < p THEN <<t, p>> ELSE <<p, t>>
Peers(t)   == Transports \ {t}

VARIABLES
  \* sender side of connection c = <<a, b>>, at a
  queue,    \* [Conns -> Seq([id, size])]   submitted, not yet sliced
  lay,      \* [Conns -> Seq([id, size, first, n, end])] sliced messages, seq-no layout
  oP,       \* outgoing.ackSeqNoPrefix
  oN,       \* outgoing.nextSeqNo
  oAck,     \* acked chunks inside the outgoing window
  \* receiver side, at b (goRead)
  iP,       \* incoming.ackPrefix
  iN,       \* incoming.nextSeqNo
  iRcv,     \* received chunks inside the incoming window
  dlv,      \* ids handed to the message handler, in order
  iTot,     \* incoming.messagesTotalOffset (stream offset up to which memory is granted)
  req,      \* incoming.requestedMemorySize
  \* receiver side, at b (goWrite): AcksToSend
  kP, kS,
  \* per transport
  mem,      \* acquiredMemory
  waitQ,    \* memoryWaiters (sequence of connections)
  net,      \* inbound datagrams: Seq([id, src, lo, hi, ackP, ackS, nack])
  hdrQ,     \* headers parsed by goRead: Seq([peer, lo, hi, ackP, ackS])
  hdrPass,  \* how many of them were already passed to goWrite ('e')
  \* scheduling layer
  pend,     \* [Conns -> SUBSET Nat] chunks eligible for (re)sending now (sender)
  ak,       \* ack timer of the receiver: 0 idle, 1 armed, 2 expired (an ack is due)
  forceNk,  \* resend-request timer expired: the next datagram is a resend request
  \* environment
  nmsg, faults

dataVars  == <<queue, lay, oP, oN, oAck, iP, iN, iRcv, dlv, iTot, req, kP, kS,
               mem, waitQ, net, hdrQ, hdrPass>>
schedVars == <<pend, ak, forceNk>>
envVars   == <<nmsg, faults>>
vars      == <<dataVars, schedVars, envVars>>

---------------------------------------------------------------------------
SetMin(S) == CHOOSE x \in S : \A y \in S : x <= y
SetMax(S) == CHOOSE x \in S : \A y \in S : x >= y
InSeq(x, s) == \E j \in 1 .. Len(s) : s[j] = x
SwapRemove(s, k) == [j \in 1 .. (Len(s) - 1) |-> IF j = k THEN s[Len(s)] ELSE s[j]]

\* index in a layout of the message that owns sequence number s
MsgIdx(L, s) == CHOOSE m \in 1 .. Len(L) : L[m].first <= s /\ s < L[m].first + L[m].n
LayEnd(L) == IF L = <<>> THEN 0 ELSE L[Len(L)].end
LayNext(L) == IF L = <<>> THEN 0 ELSE L[Len(L)].first + L[Len(L)].n

\* first sequence number >= from that is not in set, at most to
FirstMissing(from, to, set) ==
  IF \E s \in from .. (to - 1) : s \notin set THEN SetMin({s \in from .. (to - 1) : s \notin set}) ELSE to

\* AcksToSend.BuildAck: the first range in full, then at most MaxAckSet further numbers
AckSetOf(S) ==
  IF S = {} THEN {}
  ELSE LET lo == SetMin(S)
           fr == {s \in S : \A x \in lo .. s : x \in S}
           rest == S \ fr
       IN IF Cardinality(rest) <= MaxAckSet THEN S
          ELSE fr \cup {s \in rest : Cardinality({x \in rest : x < s}) < MaxAckSet}

Holes(p, S) == IF S = {} THEN {} ELSE {s \in p .. SetMax(S) : s \notin S}

Init ==
  /\ queue = [c \in Conns |-> <<>>] /\ lay = [c \in Conns |-> <<>>]
  /\ oP = [c \in Conns |-> 0] /\ oN = [c \in Conns |-> 0] /\ oAck = [c \in Conns |-> {}]
  /\ iP = [c \in Conns |-> 0] /\ iN = [c \in Conns |-> 0] /\ iRcv = [c \in Conns |-> {}]
  /\ dlv = [c \in Conns |-> <<>>] /\ iTot = [c \in Conns |-> 0] /\ req = [c \in Conns |-> 0]
  /\ kP = [c \in Conns |-> 0] /\ kS = [c \in Conns |-> {}]
  /\ mem = [t \in Transports |-> 0] /\ waitQ = [t \in Transports |-> <<>>]
  /\ net = [t \in Transports |-> <<>>] /\ hdrQ = [t \in Transports |-> <<>>]
  /\ hdrPass = [t \in Transports |-> 0]
  /\ pend = [c \in Conns |-> {}] /\ ak = [c \in Conns |-> 0]
  /\ forceNk = [c \in Conns |-> FALSE]
  /\ nmsg = 0 /\ faults = 0

---------------------------------------------------------------------------
(* 'n' : ConnectTo + SendMessage.  The simulator ignores dst <= src and    *)
(* empty messages, so only a < b submits.                                  *)
NewMessage(c, id, size) ==
  /\ nmsg < MaxMsgs
  /\ size > 0
  /\ queue' = [queue EXCEPT ![c] = Append(@, [id |-> id, size |-> size])]
  /\ nmsg' = nmsg + 1
  /\ UNCHANGED <<lay, oP, oN, oAck, iP, iN, iRcv, dlv, iTot, req, kP, kS, mem, waitQ, net,
                 hdrQ, hdrPass, schedVars, faults>>

---------------------------------------------------------------------------
(* Receiver: IncomingConnection.ReceiveDatagram / receiveMessageChunk /    *)
(* ensureWindowSize / moveWindowPrefix and the transport's memory waiters. *)
(* st = [iP, iN, iRcv, dlv, iTot, req (functions over Conns), mem, waitQ   *)
(* (of the reading transport), ok, any, alo, ahi].                         *)

\* Transport.checkMemoryWaiters
RECURSIVE Grant(_)
Grant(st) ==
  IF st.waitQ = <<>> THEN st
  ELSE LET h == Head(st.waitQ) IN
       IF st.mem + st.req[h] <= MemLimit
       THEN Grant([st EXCEPT !.mem = @ + st.req[h], !.iTot[h] = @ + st.req[h],
                             !.req[h] = 0, !.waitQ = Tail(@)])
       ELSE st

\* IncomingConnection.moveWindowPrefix (StreamLikeIncoming: the handler runs
\* when the prefix passes the last chunk of a message)
RECURSIVE MovePrefix(_, _)
MovePrefix(st, c) ==
  IF st.iP[c] \notin st.iRcv[c] THEN st
  ELSE LET s    == st.iP[c]
           m    == lay[c][MsgIdx(lay[c], s)]
           st1  == [st EXCEPT !.iRcv[c] = @ \ {s}, !.iP[c] = s + 1]
       IN IF s # m.first + m.n - 1
          THEN \* inside a message: an emptied window keeps one placeholder chunk
               MovePrefix(IF s + 1 = st.iN[c] THEN [st1 EXCEPT !.iN[c] = s + 2] ELSE st1, c)
          ELSE MovePrefix(Grant([st1 EXCEPT !.dlv[c] = Append(@, m.id), !.mem = @ - m.size]), c)

\* IncomingConnection.ensureWindowSize for s >= nextSeqNo
Extend(st, c, s) ==
  IF s - st.iP[c] + 1 > MaxWin THEN [st EXCEPT !.ok = FALSE]
  ELSE LET need == lay[c][MsgIdx(lay[c], s)].end - st.iTot[c] IN
       IF need <= 0 THEN [st EXCEPT !.iN[c] = s + 1]
       ELSE LET inQ == InSeq(c, st.waitQ) IN
            IF inQ /\ need >= st.req[c] THEN [st EXCEPT !.ok = FALSE]
            ELSE LET wq  == IF inQ THEN st.waitQ ELSE Append(st.waitQ, c)
                     st1 == [st EXCEPT !.req[c] = need, !.waitQ = wq]
                 IN IF Head(wq) = c /\ st1.mem + need <= MemLimit
                    THEN LET g == Grant([st1 EXCEPT !.mem = @ + need, !.waitQ = Tail(wq)])
                         IN [g EXCEPT !.iN[c] = s + 1, !.iTot[c] = @ + need, !.req[c] = 0]
                    ELSE [st1 EXCEPT !.ok = FALSE]

\* IncomingConnection.receiveMessageChunk; st.ok = the chunk counts as received
RecvOne(st0, c, s) ==
  LET st == [st0 EXCEPT !.ok = TRUE] IN
  IF s < st.iP[c] THEN st
  ELSE LET st2 == IF s < st.iN[c] THEN st ELSE Extend(st, c, s) IN
       IF ~st2.ok \/ s \in st2.iRcv[c] THEN st2
       ELSE MovePrefix([st2 EXCEPT !.iRcv[c] = @ \cup {s}], c)

\* the loop of ReceiveDatagram: every chunk is tried; the header handed to
\* goWrite names the range first .. last received chunk
RECURSIVE RecvChunks(_, _, _, _)
RecvChunks(st, c, s, hi) ==
  IF s > hi THEN st
  ELSE LET r == RecvOne(st, c, s) IN
       RecvChunks([r EXCEPT !.alo = IF r.ok /\ ~st.any THEN s ELSE st.alo,
                            !.ahi = IF r.ok THEN s ELSE st.ahi,
                            !.any = st.any \/ r.ok], c, s + 1, hi)

(* 'r' : one goRead iteration on datagram (i mod length) of net[t].        *)
Read(t, i) ==
  /\ net[t] # <<>>
  /\ Len(hdrQ[t]) < MaxHdr
  /\ LET l   == Len(net[t])
         k   == (i % l) + 1
         dg  == net[t][k]
         p   == dg.src
         c   == ConnOf(t, p)
         st0 == [iP |-> iP, iN |-> iN, iRcv |-> iRcv, dlv |-> dlv, iTot |-> iTot, req |-> req,
                 mem |-> mem[t], waitQ |-> waitQ[t], ok |-> TRUE, any |-> FALSE, alo |-> 1, ahi |-> 0]
         st  == IF p < t /\ dg.lo <= dg.hi THEN RecvChunks(st0, c, dg.lo, dg.hi) ELSE st0
         h   == [peer |-> p, lo |-> st.alo, hi |-> st.ahi, ackP |-> dg.ackP, ackS |-> dg.ackS]
     IN /\ net' = [net EXCEPT ![t] = SwapRemove(@, k)]
        /\ iP' = st.iP /\ iN' = st.iN /\ iRcv' = st.iRcv /\ dlv' = st.dlv
        /\ iTot' = st.iTot /\ req' = st.req
        /\ mem' = [mem EXCEPT ![t] = st.mem]
        /\ waitQ' = [waitQ EXCEPT ![t] = st.waitQ]
        /\ hdrQ' = [hdrQ EXCEPT ![t] = Append(@, h)]
        \* data (also duplicates) starts the ack timer
        /\ ak' = IF Sched /\ p < t /\ st.any /\ ak[c] = 0 THEN [ak EXCEPT ![c] = 1] ELSE ak
        \* a resend request goes straight to goWrite: the named chunks that are
        \* still unacked become eligible
        /\ pend' = IF Sched /\ t < p /\ dg.nack # {}
                    THEN [pend EXCEPT ![c] = @ \cup {s \in dg.nack : s >= oP[c] /\ s < oN[c] /\ s \notin oAck[c]}]
                    ELSE pend
  /\ UNCHANGED <<queue, lay, oP, oN, oAck, kP, kS, hdrPass, forceNk, nmsg, faults>>

(* 'e' : the simulator moves one parsed header into goWrite's input queue. *)
EncHdr(t) ==
  /\ hdrPass[t] < Len(hdrQ[t])
  /\ hdrPass' = [hdrPass EXCEPT ![t] = @ + 1]
  /\ UNCHANGED <<queue, lay, oP, oN, oAck, iP, iN, iRcv, dlv, iTot, req, kP, kS, mem, waitQ, net,
                 hdrQ, schedVars, envVars>>

---------------------------------------------------------------------------
(* goWrite.  W = [oP, oAck, kP, kS, pend] while the headers passed by the  *)
(* reader are consumed in order.                                           *)

\* Transport.handleAck: OutgoingConnection.AckPrefix / AckChunk
AckApply(W, c, P, S) ==
  LET win == W.oP[c] .. (oN[c] - 1)
      na  == W.oAck[c] \cup {s \in win : (P <= oN[c] /\ s < P) \/ s \in S}
      np  == FirstMissing(W.oP[c], oN[c], na)
  IN [W EXCEPT !.oP[c] = np, !.oAck[c] = {s \in na : s > np},
               !.pend[c] = {s \in @ : s >= np /\ s \notin na}]

\* AcksToSend.AddAckRange as a set
DataApply(W, c, lo, hi) ==
  IF lo > hi THEN W
  ELSE LET all == W.kS[c] \cup (lo .. hi)
           top == IF SetMax(all) + 1 > W.kP[c] THEN SetMax(all) + 1 ELSE W.kP[c]
           np  == FirstMissing(W.kP[c], top, all)
       IN [W EXCEPT !.kP[c] = np, !.kS[c] = {s \in all : s > np}]

RECURSIVE ConsumeHdrs(_, _, _)
ConsumeHdrs(W, t, j) ==
  IF j > hdrPass[t] THEN W
  ELSE LET h == hdrQ[t][j]
           c == ConnOf(t, h.peer)
       IN ConsumeHdrs(IF t < h.peer THEN AckApply(W, c, h.ackP, h.ackS)
                      ELSE DataApply(W, c, h.lo, h.hi), t, j + 1)

AfterEvents(t) ==
  ConsumeHdrs([oP |-> oP, oAck |-> oAck, kP |-> kP, kS |-> kS, pend |-> pend], t, 1)

\* the connection is in goWrite's send queue (haveChunksToSendNow / ack due)
WantsSend(t, c, W) ==
  IF t = c[1] THEN W.pend[c] # {} \/ queue[c] # <<>>
  ELSE ak[c] = 2 \/ forceNk[c]
ConnsOf(t) == {c \in Conns : c[1] = t \/ c[2] = t}
OtherEnd(t, c) == IF c[1] = t THEN c[2] ELSE c[1]

\* OutgoingConnection.sliceNextMessage for the first Len(ns) queued messages
RECURSIVE SliceInto(_, _, _)
SliceInto(L, q, ns) ==
  IF ns = <<>> THEN L
  ELSE SliceInto(Append(L, [id |-> q[1].id, size |-> q[1].size, first |-> LayNext(L),
                            n |-> ns[1], end |-> LayEnd(L) + q[1].size]), Tail(q), Tail(ns))

NoSend == [peer |-> -1]

(* 'w' : snd = NoSend, or [peer, id, ns, lo, hi, nk]: the datagram goes to *)
(* peer, ns = chunk counts of the messages sliced now, lo .. hi = chunks   *)
(* carried, nk = it is a resend request.                                   *)
Write(t, snd) ==
  LET W == AfterEvents(t) IN
  /\ hdrQ' = [hdrQ EXCEPT ![t] = SubSeq(@, hdrPass[t] + 1, Len(@))]
  /\ hdrPass' = [hdrPass EXCEPT ![t] = 0]
  /\ kP' = W.kP /\ kS' = W.kS
  /\ oP' = W.oP /\ oAck' = W.oAck
  /\ UNCHANGED <<iP, iN, iRcv, dlv, iTot, req, mem, waitQ, nmsg, faults>>
  /\ IF snd.peer = -1
     THEN \* nothing to send (or the peer's inbound network is full)
          /\ Sched => \A c \in ConnsOf(t) : WantsSend(t, c, W) => Len(net[OtherEnd(t, c)]) >= MaxNet
          /\ pend' = (IF Sched THEN W.pend ELSE pend)
          /\ UNCHANGED <<queue, lay, oN, net, ak, forceNk>>
     ELSE LET p  == snd.peer
              c  == ConnOf(t, p)
              L2 == IF t < p THEN SliceInto(lay[c], queue[c], snd.ns) ELSE lay[c]
              n2 == IF t < p THEN LayNext(L2) ELSE oN[c]
              fresh == IF t < p THEN oN[c] .. (n2 - 1) ELSE {}
              ch == snd.lo .. snd.hi
              dg == [id |-> snd.id, src |-> t, lo |-> snd.lo, hi |-> snd.hi,
                     ackP |-> IF t > p THEN W.kP[c] ELSE 0,
                     ackS |-> IF t > p THEN AckSetOf(W.kS[c]) ELSE {},
                     nack |-> IF t > p /\ snd.nk THEN Holes(W.kP[c], W.kS[c]) ELSE {}]
          IN /\ p \in Peers(t)
             /\ Len(net[p]) < MaxNet
             \* ---- strict core: what a datagram may name ----
             /\ t > p => snd.ns = <<>> /\ ch = {}
             /\ t < p => /\ ~snd.nk
                         /\ Len(snd.ns) <= Len(queue[c])
                         /\ \A j \in 1 .. Len(snd.ns) : snd.ns[j] \in ChunkCounts(queue[c][j].size)
                         /\ \A s \in ch : s >= W.oP[c] /\ s < n2 /\ s \notin W.oAck[c]
                         /\ \A s1, s2 \in ch : s1 < s2 => MsgIdx(L2, s1) # MsgIdx(L2, s2)
             \* ---- scheduling layer ----
             /\ Sched => /\ WantsSend(t, c, W)
                         /\ Cardinality(ch) <= MaxBurst /\ Len(snd.ns) <= MaxBurst
                         /\ t > p => snd.nk = forceNk[c]
                         /\ t < p => /\ ch # {} /\ ch \subseteq W.pend[c] \cup fresh
                                     /\ (W.pend[c] # {} => snd.ns = <<>>)
             /\ net' = [net EXCEPT ![p] = Append(@, dg)]
             /\ lay' = [lay EXCEPT ![c] = L2]
             /\ oN' = [oN EXCEPT ![c] = n2]
             /\ queue' = IF t < p THEN [queue EXCEPT ![c] = SubSeq(@, Len(snd.ns) + 1, Len(@))] ELSE queue
             /\ IF Sched
                THEN /\ pend' = [W.pend EXCEPT ![c] = (@ \cup fresh) \ ch]
                     /\ ak' = IF t > p THEN [ak EXCEPT ![c] = 0] ELSE ak
                     /\ forceNk' = IF t > p THEN [forceNk EXCEPT ![c] = FALSE] ELSE forceNk
                ELSE UNCHANGED <<pend, ak, forceNk>>

---------------------------------------------------------------------------
(* 't' : timers.  Only the scheduling layer is touched.  The resend timer  *)
(* is armed while chunks are in flight, the resend-request timer while the *)
(* ack builder knows holes, the ack timer after data was read.             *)
Idle(c) ==
  /\ \A j \in 1 .. Len(net[c[2]]) : net[c[2]][j].src # c[1]
  /\ \A j \in 1 .. Len(net[c[1]]) : net[c[1]][j].src # c[2]
  /\ \A j \in 1 .. Len(hdrQ[c[2]]) : hdrQ[c[2]][j].peer # c[1]
  /\ \A j \in 1 .. Len(hdrQ[c[1]]) : hdrQ[c[1]][j].peer # c[2]
  /\ ak[c] = 0

TimerResend(c) ==
  LET un == {s \in oP[c] .. (oN[c] - 1) : s \notin oAck[c]} IN
  /\ un \ pend[c] # {}
  /\ Patient => Idle(c) /\ pend[c] = {} /\ ~forceNk[c]
  /\ pend' = [pend EXCEPT ![c] = @ \cup un]
  /\ UNCHANGED <<dataVars, ak, forceNk, envVars>>

TimerAck(c) ==
  /\ ak[c] = 1
  /\ ak' = [ak EXCEPT ![c] = 2]
  /\ UNCHANGED <<dataVars, pend, forceNk, envVars>>

TimerNack(c) ==
  /\ kS[c] # {} /\ ~forceNk[c]
  /\ Patient => Idle(c) /\ pend[c] = {}
  /\ forceNk' = [forceNk EXCEPT ![c] = TRUE]
  /\ UNCHANGED <<dataVars, pend, ak, envVars>>

Timer(kind, c) ==
  /\ Sched
  /\ \/ kind = "resend" /\ TimerResend(c)
     \/ kind = "ack" /\ TimerAck(c)
     \/ kind = "nack" /\ TimerNack(c)

---------------------------------------------------------------------------
(* network faults *)
Dup(t, i) ==
  /\ faults < MaxFaults
  /\ net[t] # <<>> /\ Len(net[t]) < MaxNet
  /\ net' = [net EXCEPT ![t] = Append(@, @[(i % Len(@)) + 1])]
  /\ faults' = faults + 1
  /\ UNCHANGED <<queue, lay, oP, oN, oAck, iP, iN, iRcv, dlv, iTot, req, kP, kS, mem, waitQ,
                 hdrQ, hdrPass, schedVars, nmsg>>

Loss(t, i) ==
  /\ faults < MaxFaults
  /\ net[t] # <<>>
  /\ net' = [net EXCEPT ![t] = SwapRemove(@, (i % Len(@)) + 1)]
  /\ faults' = faults + 1
  /\ UNCHANGED <<queue, lay, oP, oN, oAck, iP, iN, iRcv, dlv, iTot, req, kP, kS, mem, waitQ,
                 hdrQ, hdrPass, schedVars, nmsg>>

(* the network is repaired and nothing more is submitted *)
Settle ==
  /\ nmsg < MaxMsgs \/ faults < MaxFaults
  /\ nmsg' = MaxMsgs /\ faults' = MaxFaults
  /\ UNCHANGED <<dataVars, schedVars>>

---------------------------------------------------------------------------
(* properties *)
Received(c)   == {s \in 0 .. (oN[c] - 1) : s < iP[c] \/ s \in iRcv[c]}
AckKnown(c)   == {s \in 0 .. (oN[c] - 1) : s < kP[c] \/ s \in kS[c]}
Acked(c)      == {s \in 0 .. (oN[c] - 1) : s < oP[c] \/ s \in oAck[c]}
LayIds(L)     == [j \in 1 .. Len(L) |-> L[j].id]
DoneMsgs(L, p) == Cardinality({j \in 1 .. Len(L) : L[j].first + L[j].n <= p})
SizeUpTo(L, k) == IF k = 0 THEN 0 ELSE L[k].end

\* the strict core: acked <= known to the ack builder <= received <= sent
Core ==
  \A c \in Conns :
    /\ oP[c] <= kP[c] /\ kP[c] <= iP[c] /\ iP[c] <= iN[c] /\ iN[c] <= oN[c] /\ oP[c] <= oN[c]
    /\ oN[c] = LayNext(lay[c])
    /\ Acked(c) \subseteq AckKnown(c) /\ AckKnown(c) \subseteq Received(c)
    /\ iRcv[c] \subseteq (iP[c] + 1) .. (iN[c] - 1) /\ oAck[c] \subseteq (oP[c] + 1) .. (oN[c] - 1)
    /\ (iN[c] > iP[c] + 1 => (iN[c] - 1) \in iRcv[c])

\* what datagrams and headers in flight may name
NetOK ==
  \A t \in Transports :
    /\ \A j \in 1 .. Len(net[t]) :
         LET dg == net[t][j] c == ConnOf(t, dg.src) IN
         /\ dg.lo <= dg.hi => dg.src < t /\ dg.hi < oN[c]
         /\ dg.ackP > 0 \/ dg.ackS # {} => dg.src > t /\ dg.ackP <= iP[c]
                                       /\ dg.ackS \subseteq Received(c)
         /\ dg.nack # {} => dg.src > t /\ dg.nack \subseteq 0 .. (oN[c] - 1)
    /\ \A j \in 1 .. Len(hdrQ[t]) :
         LET h == hdrQ[t][j] c == ConnOf(t, h.peer) IN
         /\ h.lo <= h.hi => (h.lo .. h.hi) \subseteq Received(c)
         /\ h.ackS \subseteq Received(c) /\ h.ackP <= iP[c]

\* delivered = the first messages of the stream, in order, exactly those whose
\* last chunk is below the received prefix: subset of submitted, at most once
DeliveredOK ==
  \A c \in Conns :
    /\ Len(dlv[c]) <= Len(lay[c])
    /\ dlv[c] = SubSeq(LayIds(lay[c]), 1, Len(dlv[c]))
    /\ Len(dlv[c]) = DoneMsgs(lay[c], iP[c])
    /\ \A j1, j2 \in 1 .. Len(lay[c]) : j1 # j2 => lay[c][j1].id # lay[c][j2].id

Held(c) == iTot[c] - SizeUpTo(lay[c], Len(dlv[c]))
RECURSIVE HeldSum(_)
HeldSum(S) == IF S = {} THEN 0 ELSE LET x == CHOOSE y \in S : TRUE IN Held(x) + HeldSum(S \ {x})
MemOK ==
  \A t \in Transports :
    /\ mem[t] >= 0 /\ mem[t] <= MemLimit
    /\ mem[t] = HeldSum({c \in Conns : c[2] = t})
    /\ waitQ[t] # <<>> => mem[t] + req[Head(waitQ[t])] > MemLimit
    /\ \A j1, j2 \in 1 .. Len(waitQ[t]) : j1 # j2 => waitQ[t][j1] # waitQ[t][j2]
    /\ \A c \in Conns : c[2] = t => (req[c] > 0 <=> InSeq(c, waitQ[t]))

\* everything submitted was delivered, every receiver has (and has acknowledged to its ack
\* builder) every chunk, no incoming memory is held
DeliveredQuiescent ==
  /\ \A c \in Conns : /\ queue[c] = <<>> /\ iP[c] = oN[c] /\ iN[c] = oN[c]
                      /\ kP[c] = oN[c] /\ dlv[c] = LayIds(lay[c])
  /\ \A t \in Transports : mem[t] = 0 /\ waitQ[t] = <<>>

Quiescent == DeliveredQuiescent /\ \A c \in Conns : oP[c] = oN[c]

(* Named deviation of the code from this specification (not a violation of *)
(* the property, which speaks about delivery and incoming memory): after   *)
(* full delivery a sender may never learn it.  A selective ack makes       *)
(* OutgoingConnection.updatedSeqNums move all resend pointers past an      *)
(* older chunk that is still unacked; if the ack that covers that chunk is *)
(* lost, the resend timer fires for ever without resending it and the      *)
(* receiver has no reason to speak, so the outgoing window stays open      *)
(* until later traffic carries a newer ack prefix.  The model itself is    *)
(* live (TimerResend makes every unacked chunk eligible); trace validation *)
(* accepts a settle loop that ends in this state and counts it.            *)
SenderUnawareOfDelivery == DeliveredQuiescent /\ \E c \in Conns : oP[c] < oN[c]

\* acknowledged prefixes never move backwards
Monotone ==
  \A c \in Conns : /\ oP'[c] >= oP[c] /\ oN'[c] >= oN[c] /\ iP'[c] >= iP[c] /\ kP'[c] >= kP[c]
                   /\ Len(dlv'[c]) >= Len(dlv[c]) /\ SubSeq(dlv'[c], 1, Len(dlv[c])) = dlv[c]
=============================================================================
