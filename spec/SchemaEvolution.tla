-------------------------- MODULE SchemaEvolution --------------------------
(***************************************************************************)
(* Schema evolution of TL1 schemas and wire compatibility (properties      *)
(* C28, C29, C30: the backward-compatibility linter of internal/tlcodegen).*)
(*                                                                         *)
(* State (old, new, log): `old` is a base schema, `new` the schema after   *)
(* the edits recorded in `log`.  A schema is a sequence of source-level    *)
(* combinators                                                             *)
(*   [fn, name, typ, explicit, tag, targs, fields, res]                    *)
(*   fn     : BOOLEAN          function (TRUE) or type constructor         *)
(*   name   : constructor / function name                                  *)
(*   typ    : result type name of a constructor ("" for functions);        *)
(*            constructors with equal typ form one (union) type            *)
(*   explicit, tag : the effective 32-bit tag as 4 little-endian bytes.    *)
(*            explicit = TRUE: written in the text (#000000kk for the tags *)
(*            minted here); explicit = FALSE: the implicit CRC32 tag, taken *)
(*            by the harness from the real front end (Combinator.Crc32()). *)
(*            A textual edit of an implicitly tagged combinator changes its *)
(*            tag by definition, so edits are applied to combinators whose  *)
(*            tag is explicit, or does not matter (Editable below); for an  *)
(*            edited implicit combinator the recorded tag is refreshed by   *)
(*            the harness before WireCompatible is evaluated on a trace.    *)
(*   targs  : sequence of names of {x:#} template parameters               *)
(*   fields : sequence of [name, ty, mask, bit]; mask = "" when unmasked   *)
(*   res    : result type expression of a function                         *)
(* A type expression is [t, bare, args]; t is "#", "int", "long", "string",*)
(* "Vector", "Tuple", a type name or a constructor name; args is a         *)
(* sequence of [k |-> "n", n |-> const] | [k |-> "r", r |-> natVarName] |  *)
(* [k |-> "ty", ty |-> typeExpr].  Invariant of all schemas built here:    *)
(* a combinator only refers to types declared before it (no recursion).    *)
(*                                                                         *)
(* The module contains a self-contained model of the TL1 wire layout for   *)
(* this fragment (Enc1 / Dec1 over byte sequences), the bit-usage analysis *)
(* of field masks (UsedVar / MaySetT), WireCompatible(old, new), and the   *)
(* catalogue of safe and unsafe edit actions.                              *)
(***************************************************************************)
EXTENDS Integers, Sequences, FiniteSets, TLC, Json

CONSTANTS MaxBit      \* edits use field-mask bits 0..MaxBit

Bits == 0..MaxBit
SIZE == 99            \* marker inside a bit set: "the nat is used as an array size"

---------------------------------------------------------------------------
(* generic helpers *)
RemoveAt(s, i) == SubSeq(s, 1, i - 1) \o SubSeq(s, i + 1, Len(s))
InsertAfter(s, i, x) == SubSeq(s, 1, i) \o <<x>> \o SubSeq(s, i + 1, Len(s))
Range(s) == {s[i] : i \in 1..Len(s)}
IndexOf(s, x) == CHOOSE i \in 1..Len(s) : s[i] = x
RECURSIVE Concat(_)
Concat(ss) == IF Len(ss) = 0 THEN <<>> ELSE Head(ss) \o Concat(Tail(ss))

Pow2(k) == CASE k = 0 -> 1 [] k = 1 -> 2 [] k = 2 -> 4 [] k = 3 -> 8
             [] k = 4 -> 16 [] k = 5 -> 32 [] k = 6 -> 64 [] k = 7 -> 128

---------------------------------------------------------------------------
(* type expressions *)
TE(t, bare, args) == [t |-> t, bare |-> bare, args |-> args]
ArgN(n)  == [k |-> "n", n |-> n]
ArgR(r)  == [k |-> "r", r |-> r]
ArgT(ty) == [k |-> "ty", ty |-> ty]
TInt    == TE("int", TRUE, <<>>)
TNat    == TE("#", TRUE, <<>>)
Scalars == {"int", "long", "string"}
Builtins == Scalars \cup {"#", "Vector", "Tuple"}

Field(n, ty, m, b) == [name |-> n, ty |-> ty, mask |-> m, bit |-> b]

RECURSIVE Nodes(_)
Nodes(te) == {te} \cup UNION {Nodes(te.args[k].ty) : k \in {k \in 1..Len(te.args) : te.args[k].k = "ty"}}

CombTEs(c) == {c.fields[j].ty : j \in 1..Len(c.fields)} \cup (IF c.fn THEN {c.res} ELSE {})
CombNodes(c) == UNION {Nodes(te) : te \in CombTEs(c)}

---------------------------------------------------------------------------
(* schema lookups *)
CtorIdxs(S) == {i \in 1..Len(S) : ~S[i].fn}
FnIdxs(S)   == {i \in 1..Len(S) : S[i].fn}
HasName(S, n) == \E i \in 1..Len(S) : S[i].name = n
IdxOf(S, n) == CHOOSE i \in 1..Len(S) : S[i].name = n
IsCtorName(S, n) == \E i \in CtorIdxs(S) : S[i].name = n
CtorsOfType(S, T) == {i \in CtorIdxs(S) : S[i].typ = T}
TypeNames(S) == {S[i].typ : i \in CtorIdxs(S)}
TypeOfRef(S, n) == IF IsCtorName(S, n) THEN S[IdxOf(S, n)].typ ELSE n
Targets(S, n) == IF IsCtorName(S, n) THEN {IdxOf(S, n)} ELSE CtorsOfType(S, n)
TagNum(t) == IF t[2] = 0 /\ t[3] = 0 /\ t[4] = 0 THEN t[1] ELSE 0
MaxTag(S) == LET RECURSIVE M(_)
                 M(i) == IF i > Len(S) THEN 0 ELSE LET r == M(i + 1) IN IF TagNum(S[i].tag) > r THEN TagNum(S[i].tag) ELSE r
             IN M(1)
FreshTag(S) == <<MaxTag(S) + 1, 0, 0, 0>>             \* a new explicit tag #000000kk

NatVars(c) == Range(c.targs) \cup {c.fields[j].name : j \in {j \in 1..Len(c.fields) : c.fields[j].ty.t = "#"}}
AllNatVars(S) == UNION {NatVars(S[k]) : k \in 1..Len(S)}
NatVarsBefore(c, j) == Range(c.targs) \cup {c.fields[k].name : k \in {k \in 1..(j - 1) : c.fields[k].ty.t = "#"}}

(* is nat variable x of combinator c referenced (as a mask or as an argument)? *)
RefsInTE(te, x) == \E n \in Nodes(te) : \E k \in 1..Len(n.args) : n.args[k].k = "r" /\ n.args[k].r = x
VarReferenced(c, x) == \/ \E j \in 1..Len(c.fields) : c.fields[j].mask = x
                       \/ \E te \in CombTEs(c) : RefsInTE(te, x)

(* all references to type T (by type name or by one of its constructor names) *)
RefsToType(S, T) == {n \in UNION {CombNodes(S[i]) : i \in 1..Len(S)} : ~(n.t \in Builtins) /\ TypeOfRef(S, n.t) = T}
UsedBare(S, T) == \E n \in RefsToType(S, T) : n.bare \/ IsCtorName(S, n.t)
UsedBoxed(S, T) == \E n \in RefsToType(S, T) : ~n.bare /\ ~IsCtorName(S, n.t)
(* the tag of combinator ci is on the wire of some value of S, or was pinned in the text *)
TagMatters(S, ci) == S[ci].explicit \/ S[ci].fn \/ UsedBoxed(S, S[ci].typ)
(* domain of the edits that change the text of a combinator (DESIGN 6) *)
Editable(S, i) == S[i].explicit \/ ~TagMatters(S, i)

---------------------------------------------------------------------------
(* nat values are SETS OF BITS (TLC integers are 32-bit, bit 31 must work) *)
ByteOf(bs, j) == LET S8[k \in 0..8] == IF k = 8 THEN 0
                                      ELSE (IF (8 * (j - 1) + k) \in bs THEN Pow2(k) ELSE 0) + S8[k + 1]
                 IN S8[0]
NatBytes(bs) == <<ByteOf(bs, 1), ByteOf(bs, 2), ByteOf(bs, 3), ByteOf(bs, 4)>>
BitsOfBytes(b) == {k \in 0..31 : (b[(k \div 8) + 1] \div Pow2(k % 8)) % 2 = 1}
BitsOfNum(n) == {k \in 0..7 : (n \div Pow2(k)) % 2 = 1}        \* constants in schemas are < 256
NumOf(bs) == IF bs \subseteq 0..7 THEN ByteOf(bs, 1) ELSE -1       \* sizes are < 256 in the model

EmptyEnv == [x \in {} |-> {}]
EnvGet(env, x) == IF x \in DOMAIN env THEN env[x] ELSE {}
Bind(env, x, v) == [y \in DOMAIN env \cup {x} |-> IF y = x THEN v ELSE env[y]]
ArgBits(a, env) == IF a.k = "n" THEN BitsOfNum(a.n) ELSE IF a.k = "r" THEN EnvGet(env, a.r) ELSE {}
(* environment of a constructor body: template parameters bound to the arguments of the application *)
CallEnv(c, args, env) ==
  [x \in Range(c.targs) |-> LET j == IndexOf(c.targs, x) IN IF j <= Len(args) THEN ArgBits(args[j], env) ELSE {}]

---------------------------------------------------------------------------
(* TL1 wire layout.  Values:                                                *)
(*   [s |-> "#", b |-> bit set]  [s |-> "int"|"long"|"string", b |-> bytes] *)
(*   [s |-> "seq", e |-> elements]   [s |-> "struct", c |-> ctor, f |-> fs] *)
(*   [s |-> "absent"] for a field whose mask bit is not set.                *)
Absent == [s |-> "absent"]
TagBytes(t) == t                                  \* tags are kept as their 4 little-endian bytes
BuiltinTag(t) == CASE t = "int"    -> <<218, 155, 80, 168>>     \* int#a8509bda
                   [] t = "long"   -> <<186, 108, 7, 34>>       \* long#22076cba
                   [] t = "string" -> <<36, 110, 40, 181>>      \* string#b5286e24
                   [] t = "Vector" -> <<21, 196, 181, 28>>      \* vector#1cb5c415
                   [] t = "Tuple"  -> <<138, 118, 112, 151>>    \* tuple#9770768a
Zeros(k) == [i \in 1..k |-> 0]
PadLen(p) == (4 - (p % 4)) % 4
StrBytes(c) == <<Len(c)>> \o c \o Zeros(PadLen(Len(c) + 1))        \* tiny form only (length < 254)
CountBytes(n) == <<n % 256, n \div 256, 0, 0>>

RECURSIVE EncTE(_, _, _, _), EncFields(_, _, _, _, _), EncSeq(_, _, _, _)
EncSeq(S, te, env, es) == Concat([i \in 1..Len(es) |-> EncTE(S, te, env, es[i])])
EncFields(S, c, env, fv, i) ==
  IF i > Len(c.fields) THEN <<>>
  ELSE LET f == c.fields[i]
           v == IF i <= Len(fv) THEN fv[i] ELSE Absent
           present == f.mask = "" \/ f.bit \in EnvGet(env, f.mask)
           env2 == IF f.ty.t = "#" THEN Bind(env, f.name, IF present /\ v.s = "#" THEN v.b ELSE {}) ELSE env
       IN (IF present THEN EncTE(S, f.ty, env, v) ELSE <<>>) \o EncFields(S, c, env2, fv, i + 1)
EncTE(S, te, env, v) ==
  LET box == IF te.bare THEN <<>> ELSE BuiltinTag(te.t) IN
  CASE te.t = "#" -> NatBytes(v.b)
    [] te.t \in {"int", "long"} -> box \o v.b
    [] te.t = "string" -> box \o StrBytes(v.b)
    [] te.t = "Vector" -> box \o CountBytes(Len(v.e)) \o EncSeq(S, te.args[1].ty, env, v.e)
    [] te.t = "Tuple"  -> box \o EncSeq(S, te.args[1].ty, env, v.e)
    [] OTHER -> LET c == S[IdxOf(S, v.c)] IN
                (IF te.bare \/ IsCtorName(S, te.t) THEN <<>> ELSE TagBytes(c.tag))
                   \o EncFields(S, c, CallEnv(c, te.args, env), v.f, 1)

(* a top-level object: bare constructor under an explicit environment; a request: tag + arguments *)
Enc1(S, ci, env, v) == EncFields(S, S[ci], env, v.f, 1)
EncReq(S, fi, v) == TagBytes(S[fi].tag) \o EncFields(S, S[fi], EmptyEnv, v.f, 1)

(* reader: [ok, v, rest, eofs]; `lenient` (function arguments only): an unmasked # field *)
(* met at the end of the input reads as zero ("appended field mask read as zero")        *)
Fail == [ok |-> FALSE, v |-> Absent, rest |-> <<>>, eofs |-> 0]
Ok(v, rest) == [ok |-> TRUE, v |-> v, rest |-> rest, eofs |-> 0]
Drop(bs, k) == SubSeq(bs, k + 1, Len(bs))
HasPrefix(bs, p) == Len(bs) >= Len(p) /\ SubSeq(bs, 1, Len(p)) = p

RECURSIVE DecTE(_, _, _, _), DecFields(_, _, _, _, _, _, _), DecSeq(_, _, _, _, _, _)
DecSeq(S, te, env, bs, n, acc) ==
  IF n = 0 THEN Ok([s |-> "seq", e |-> acc], bs)
  ELSE LET r == DecTE(S, te, env, bs) IN
       IF ~r.ok THEN Fail ELSE DecSeq(S, te, env, r.rest, n - 1, Append(acc, r.v))
DecFields(S, c, env, bs, i, acc, lenient) ==
  IF i > Len(c.fields) THEN [ok |-> TRUE, v |-> acc, rest |-> bs, eofs |-> 0]
  ELSE LET f == c.fields[i]
           present == f.mask = "" \/ f.bit \in EnvGet(env, f.mask)
       IN IF ~present
          THEN DecFields(S, c, IF f.ty.t = "#" THEN Bind(env, f.name, {}) ELSE env, bs, i + 1, Append(acc, Absent), lenient)
          ELSE IF lenient /\ Len(bs) = 0 /\ f.ty.t = "#" /\ f.mask = ""
          THEN LET r == DecFields(S, c, Bind(env, f.name, {}), bs, i + 1, Append(acc, [s |-> "#", b |-> {}]), lenient)
               IN [r EXCEPT !.eofs = @ + 1]
          ELSE LET r == DecTE(S, f.ty, env, bs) IN
               IF ~r.ok THEN Fail
               ELSE DecFields(S, c, IF f.ty.t = "#" THEN Bind(env, f.name, r.v.b) ELSE env, r.rest, i + 1, Append(acc, r.v), lenient)
DecCtor(S, ci, env, bs) ==
  LET r == DecFields(S, S[ci], env, bs, 1, <<>>, FALSE) IN
  IF ~r.ok THEN Fail ELSE Ok([s |-> "struct", c |-> S[ci].name, f |-> r.v], r.rest)
DecTE(S, te, env, bs0) ==
  IF te.t \in Builtins /\ ~te.bare /\ ~HasPrefix(bs0, BuiltinTag(te.t)) THEN Fail
  ELSE LET bs == IF te.t \in Builtins /\ ~te.bare THEN Drop(bs0, 4) ELSE bs0 IN
  CASE te.t = "#" -> IF Len(bs) < 4 THEN Fail ELSE Ok([s |-> "#", b |-> BitsOfBytes(SubSeq(bs, 1, 4))], Drop(bs, 4))
    [] te.t = "int" -> IF Len(bs) < 4 THEN Fail ELSE Ok([s |-> "int", b |-> SubSeq(bs, 1, 4)], Drop(bs, 4))
    [] te.t = "long" -> IF Len(bs) < 8 THEN Fail ELSE Ok([s |-> "long", b |-> SubSeq(bs, 1, 8)], Drop(bs, 8))
    [] te.t = "string" ->
         IF Len(bs) = 0 \/ bs[1] >= 254 THEN Fail
         ELSE LET l == bs[1]  tot == 1 + l + PadLen(l + 1) IN
              IF Len(bs) < tot \/ SubSeq(bs, 2 + l, tot) # Zeros(PadLen(l + 1)) THEN Fail
              ELSE Ok([s |-> "string", b |-> SubSeq(bs, 2, 1 + l)], Drop(bs, tot))
    [] te.t = "Vector" ->
         IF Len(bs) < 4 \/ bs[3] # 0 \/ bs[4] # 0 THEN Fail
         ELSE LET n == bs[1] + 256 * bs[2] IN
              IF n > 64 THEN Fail                       \* no value of the model is that long
              ELSE DecSeq(S, te.args[1].ty, env, Drop(bs, 4), n, <<>>)
    [] te.t = "Tuple" ->
         LET n == NumOf(ArgBits(te.args[2], env)) IN
         IF n < 0 THEN Fail ELSE DecSeq(S, te.args[1].ty, env, bs, n, <<>>)
    [] OTHER ->
         LET cs == Targets(S, te.t) IN
         IF cs = {} THEN Fail
         ELSE IF te.bare \/ IsCtorName(S, te.t)
         THEN IF Cardinality(CtorsOfType(S, TypeOfRef(S, te.t))) # 1
              THEN Fail          \* a bare reference to a union (or to one of its constructors) has no layout
              ELSE LET ci == CHOOSE x \in cs : TRUE IN DecCtor(S, ci, CallEnv(S[ci], te.args, env), bs)
         ELSE IF Len(bs) < 4 THEN Fail
         ELSE LET hit == {ci \in cs : TagBytes(S[ci].tag) = SubSeq(bs, 1, 4)} IN
              IF Cardinality(hit) # 1 THEN Fail
              ELSE LET ci == CHOOSE x \in hit : TRUE IN DecCtor(S, ci, CallEnv(S[ci], te.args, env), Drop(bs, 4))

Dec1(S, ci, env, bs) == DecCtor(S, ci, env, bs)
DecReq(S, fi, bs) ==
  IF ~HasPrefix(bs, TagBytes(S[fi].tag)) THEN Fail
  ELSE LET r == DecFields(S, S[fi], EmptyEnv, Drop(bs, 4), 1, <<>>, TRUE) IN
       IF ~r.ok THEN Fail ELSE [ok |-> TRUE, v |-> [s |-> "struct", c |-> S[fi].name, f |-> r.v], rest |-> r.rest, eofs |-> r.eofs]

---------------------------------------------------------------------------
(* Bit usage of nat variables (field masks), following nat arguments through *)
(* type applications.  UsedVar(S, ci, x): the bits of nat variable x (a #    *)
(* field or a template parameter of combinator ci) that the schema gives     *)
(* meaning to; SIZE \in result when x (also) determines an array size.       *)
RECURSIVE UsedVar(_, _, _), UsedT(_, _, _), FlowUse(_, _, _)
FlowUse(S, te, x) ==       \* contribution of one type expression (all nested nodes)
  UNION { LET n == node IN
          IF n.t = "Tuple"
          THEN (IF Len(n.args) >= 2 /\ n.args[2].k = "r" /\ n.args[2].r = x THEN {SIZE} ELSE {})
          ELSE IF n.t \in Builtins THEN {}
          ELSE UNION { IF n.args[k].k = "r" /\ n.args[k].r = x THEN UsedT(S, n.t, k) ELSE {} : k \in 1..Len(n.args) }
        : node \in Nodes(te) }
UsedVar(S, ci, x) ==
  LET c == S[ci] IN
    {c.fields[j].bit : j \in {j \in 1..Len(c.fields) : c.fields[j].mask = x}}
    \cup UNION {FlowUse(S, te, x) : te \in CombTEs(c)}
UsedT(S, n, k) ==           \* template parameter number k of the type (or constructor) named n
  UNION { IF k <= Len(S[ci].targs) THEN UsedVar(S, ci, S[ci].targs[k]) ELSE {} : ci \in Targets(S, n) }

(* MaySetT(S, T, k): bits that some value of the schema may pass into parameter k of type T:  *)
(* bits given meaning inside T, bits of constants passed, bits of outer masks flowing in.     *)
RECURSIVE MaySetT(_, _, _), MaySetVar(_, _, _)
MaySetVar(S, ci, x) ==
  IF x \in Range(S[ci].targs) /\ ~S[ci].fn THEN MaySetT(S, S[ci].typ, IndexOf(S[ci].targs, x)) ELSE UsedVar(S, ci, x)
MaySetT(S, T, k) ==
  UsedT(S, T, k) \cup
  UNION { UNION { IF ~(n.t \in Builtins) /\ TypeOfRef(S, n.t) = T /\ k <= Len(n.args)
                  THEN (IF n.args[k].k = "n" THEN BitsOfNum(n.args[k].n)
                        ELSE IF n.args[k].k = "r" THEN MaySetVar(S, ci, n.args[k].r) ELSE {})
                  ELSE {}
                : n \in CombNodes(S[ci]) }
        : ci \in 1..Len(S) }
(* the same, but only through variables (documented "bit used in an outer scope") *)
RECURSIVE OuterUsedT(_, _, _), OuterUsedVar(_, _, _)
OuterUsedVar(S, ci, x) ==
  IF x \in Range(S[ci].targs) /\ ~S[ci].fn THEN OuterUsedT(S, S[ci].typ, IndexOf(S[ci].targs, x)) ELSE UsedVar(S, ci, x) \ {SIZE}
OuterUsedT(S, T, k) ==
  (UsedT(S, T, k) \ {SIZE}) \cup
  UNION { UNION { IF ~(n.t \in Builtins) /\ TypeOfRef(S, n.t) = T /\ k <= Len(n.args) /\ n.args[k].k = "r"
                  THEN OuterUsedVar(S, ci, n.args[k].r) ELSE {}
                : n \in CombNodes(S[ci]) }
        : ci \in 1..Len(S) }

(* bits given meaning by # FIELDS (of constructors or functions) whose value flows into parameter k of T *)
RECURSIVE FieldFlowT(_, _, _), FieldFlowVar(_, _, _)
FieldFlowVar(S, ci, x) ==
  IF x \in Range(S[ci].targs) /\ ~S[ci].fn THEN FieldFlowT(S, S[ci].typ, IndexOf(S[ci].targs, x)) ELSE UsedVar(S, ci, x) \ {SIZE}
FieldFlowT(S, T, k) ==
  UNION { UNION { IF ~(n.t \in Builtins) /\ TypeOfRef(S, n.t) = T /\ k <= Len(n.args) /\ n.args[k].k = "r"
                  THEN FieldFlowVar(S, ci, n.args[k].r) ELSE {}
                : n \in CombNodes(S[ci]) }
        : ci \in 1..Len(S) }

(* classification of bit b for a field appended to combinator ci of schema S under mask x: *)
(*   "used"  - given meaning in the combinator or in an outer scope (documented)           *)
(*   "set"   - not given meaning, but a constant passed in sets it, or x is an array size  *)
(*   "free"  - no value of S sets it                                                       *)
BitClass(S, ci, x, b) ==
  LET u == OuterUsedVar(S, ci, x) \cup (UsedVar(S, ci, x) \ {SIZE})
      m == MaySetVar(S, ci, x) \cup UsedVar(S, ci, x) IN
  IF b \in u THEN "used" ELSE IF b \in m \/ SIZE \in m THEN "set" ELSE "free"

---------------------------------------------------------------------------
(* values of the old schema (small domains) *)
IntVals == {<<1, 0, 0, 0>>}
LongVals == {<<2, 0, 0, 0, 0, 0, 0, 0>>}
StrVals == {<<>>, <<97, 98, 99, 100>>}             \* length classes: 4 and 8 bytes on the wire
NatDomOf(u) ==      \* values of a nat whose meaningful bits are u
  IF SIZE \in u THEN {{}} \cup {{b} : b \in Bits}         \* sizes 0, 1, 2, 4, ...: every mask bit occurs
  ELSE LET w == u \cap 0..31 IN
       IF Cardinality(w) <= 3 THEN SUBSET w ELSE {{}, w} \cup {{b} : b \in w}

RECURSIVE ValsTE(_, _, _), FieldVals(_, _, _, _)
FieldVals(S, ci, env, i) ==     \* all value sequences for fields i.. of combinator ci
  LET c == S[ci] IN
  IF i > Len(c.fields) THEN {<<>>}
  ELSE LET f == c.fields[i]
           present == f.mask = "" \/ f.bit \in EnvGet(env, f.mask)
           dom == IF ~present THEN {Absent}
                  ELSE IF f.ty.t = "#" THEN {[s |-> "#", b |-> x] : x \in NatDomOf(UsedVar(S, ci, f.name))}
                  ELSE ValsTE(S, f.ty, env)
       IN UNION { LET env2 == IF f.ty.t = "#" THEN Bind(env, f.name, IF present THEN v.b ELSE {}) ELSE env
                  IN {<<v>> \o r : r \in FieldVals(S, ci, env2, i + 1)}
                : v \in dom }
ValsTE(S, te, env) ==
  CASE te.t = "int" -> {[s |-> "int", b |-> x] : x \in IntVals}
    [] te.t = "long" -> {[s |-> "long", b |-> x] : x \in LongVals}
    [] te.t = "string" -> {[s |-> "string", b |-> x] : x \in StrVals}
    [] te.t = "Vector" -> {[s |-> "seq", e |-> <<>>]} \cup {[s |-> "seq", e |-> <<x>>] : x \in ValsTE(S, te.args[1].ty, env)}
    [] te.t = "Tuple" ->
         LET n == NumOf(ArgBits(te.args[2], env))
             V == ValsTE(S, te.args[1].ty, env) IN
         IF n <= 0 THEN {[s |-> "seq", e |-> <<>>]}
         ELSE IF n <= 2 THEN {[s |-> "seq", e |-> x] : x \in [1..n -> V]}
         ELSE {[s |-> "seq", e |-> [j \in 1..n |-> x]] : x \in V}
    [] OTHER ->
         UNION { {[s |-> "struct", c |-> S[ci].name, f |-> fv] : fv \in FieldVals(S, ci, CallEnv(S[ci], te.args, env), 1)}
               : ci \in Targets(S, te.t) }

(* environments of a constructor taken on its own: every parameter ranges over its meaningful bits *)
RECURSIVE EnvsFrom(_, _, _, _)
EnvsFrom(S, c, k, env) ==
  IF k > Len(c.targs) THEN {env}
  ELSE UNION {EnvsFrom(S, c, k + 1, Bind(env, c.targs[k], v)) : v \in NatDomOf(UsedT(S, c.typ, k))}
TopEnvs(S, ci) == EnvsFrom(S, S[ci], 1, EmptyEnv)

---------------------------------------------------------------------------
(* value agreement: v2 (decoded by new) means the same as v1 (written by old): *)
(* equal up to appended fields, which must be absent / zero masks              *)
RECURSIVE Agrees(_, _)
Agrees(v2, v1) ==
  IF v1.s # v2.s THEN FALSE
  ELSE CASE v1.s = "struct" ->
              /\ v1.c = v2.c /\ Len(v2.f) >= Len(v1.f)
              /\ \A i \in 1..Len(v1.f) : Agrees(v2.f[i], v1.f[i])
              /\ \A i \in (Len(v1.f) + 1)..Len(v2.f) : v2.f[i] = Absent \/ v2.f[i] = [s |-> "#", b |-> {}]
         [] v1.s = "seq" -> Len(v1.e) = Len(v2.e) /\ \A i \in 1..Len(v1.e) : Agrees(v2.e[i], v1.e[i])
         [] OTHER -> v1 = v2

(* one old constructor value survives the move to the new schema *)
CtorValueOK(old, new, ci, env, v) ==
  LET b == Enc1(old, ci, env, v)
      nm == old[ci].name IN
  /\ HasName(new, nm) /\ ~new[IdxOf(new, nm)].fn
  /\ LET ni == IdxOf(new, nm)
         d == Dec1(new, ni, env, b) IN
     /\ d.ok /\ d.rest = <<>>
     /\ Agrees(d.v, v)
     /\ Enc1(new, ni, env, d.v) = b
     /\ TagMatters(old, ci) => TagBytes(new[ni].tag) = TagBytes(old[ci].tag)   \* boxed encodings start with the tag

(* environment seen by the result type of a function: its # arguments *)
RECURSIVE ReqEnv(_, _, _, _)
ReqEnv(c, fv, i, env) ==
  IF i > Len(c.fields) THEN env
  ELSE ReqEnv(c, fv, i + 1,
              IF c.fields[i].ty.t = "#" THEN Bind(env, c.fields[i].name, IF i <= Len(fv) /\ fv[i].s = "#" THEN fv[i].b ELSE {}) ELSE env)

FnValueOK(old, new, fi, v) ==
  LET b == EncReq(old, fi, v)
      nm == old[fi].name IN
  /\ HasName(new, nm) /\ new[IdxOf(new, nm)].fn
  /\ LET ni == IdxOf(new, nm)
         d == DecReq(new, ni, b) IN
     /\ d.ok /\ d.rest = <<>>
     /\ Agrees(d.v, v)
     /\ EncReq(new, ni, d.v) = b \o Zeros(4 * d.eofs)            \* appended masks are read as zero
     /\ LET eo == ReqEnv(old[fi], v.f, 1, EmptyEnv)
            en == ReqEnv(new[ni], d.v.f, 1, EmptyEnv) IN
        \A r \in ValsTE(old, old[fi].res, eo) :                   \* answers of an old server
           LET rb == EncTE(old, old[fi].res, eo, r)
               rd == DecTE(new, new[ni].res, en, rb) IN
           rd.ok /\ rd.rest = <<>> /\ Agrees(rd.v, r) /\ EncTE(new, new[ni].res, en, rd.v) = rb

WireCompatible(old, new) ==
  /\ \A ci \in CtorIdxs(old) : \A env \in TopEnvs(old, ci) :
        \A fv \in FieldVals(old, ci, env, 1) :
           CtorValueOK(old, new, ci, env, [s |-> "struct", c |-> old[ci].name, f |-> fv])
  /\ \A fi \in FnIdxs(old) :
        \A fv \in FieldVals(old, fi, EmptyEnv, 1) :
           FnValueOK(old, new, fi, [s |-> "struct", c |-> old[fi].name, f |-> fv])

(* The wire cases of a pair, for the cross-check against really generated code: for every   *)
(* old top-level combinator without template parameters and every old value, the bytes the   *)
(* old schema writes (bare and boxed), for requests the number of zero bytes that stand for  *)
(* appended field masks under the new schema, and the encodings of all old answers.          *)
WireCases(old, new) ==
  { [name |-> old[ci].name, fn |-> FALSE, bare |-> Enc1(old, ci, EmptyEnv, [f |-> fv]),
     boxed |-> TagBytes(old[ci].tag) \o Enc1(old, ci, EmptyEnv, [f |-> fv]), pad |-> 0, res |-> {}]
    : <<ci, fv>> \in UNION { {<<ci, fv>> : fv \in FieldVals(old, ci, EmptyEnv, 1)} : ci \in {ci \in CtorIdxs(old) : old[ci].targs = <<>>} } }
  \cup
  { LET v == [s |-> "struct", c |-> old[fi].name, f |-> fv]
        b == EncReq(old, fi, v)
        d == IF HasName(new, old[fi].name) /\ new[IdxOf(new, old[fi].name)].fn THEN DecReq(new, IdxOf(new, old[fi].name), b) ELSE Fail
        eo == ReqEnv(old[fi], fv, 1, EmptyEnv)
    IN [name |-> old[fi].name, fn |-> TRUE, bare |-> <<>>, boxed |-> b, pad |-> IF d.ok THEN 4 * d.eofs ELSE 0,
        res |-> {EncTE(old, old[fi].res, eo, r) : r \in ValsTE(old, old[fi].res, eo)}]
    : <<fi, fv>> \in UNION { {<<fi, fv>> : fv \in FieldVals(old, fi, EmptyEnv, 1)} : fi \in FnIdxs(old) } }

(* number of (constructor, value) cases WireCompatible quantifies over *)
NumValues(S) ==
  LET RECURSIVE Sum(_)
      Sum(i) == IF i > Len(S) THEN 0
                ELSE (IF S[i].fn THEN Cardinality(FieldVals(S, i, EmptyEnv, 1))
                      ELSE LET es == TopEnvs(S, i)
                               RECURSIVE SumE(_)
                               SumE(E) == IF E = {} THEN 0 ELSE LET e == CHOOSE x \in E : TRUE IN
                                          Cardinality(FieldVals(S, i, e, 1)) + SumE(E \ {e})
                           IN SumE(es)) + Sum(i + 1)
  IN Sum(1)

---------------------------------------------------------------------------
(* EDIT ACTIONS.  Each takes the current schema S (= new), the base schema O *)
(* (= old), and yields a set of [s |-> schema', e |-> log entry].            *)
(* log entry: action, safe?, documented?, combinator, sub-class, benign? (unsafe by the  *)
(* catalogue but not claimed to break the wire: theorem UnsafeBreaks is asserted for    *)
(* every unsafe instance that is not flagged), pos = the instance parameters            *)
Entry(a, safe, doc, comb, sub, benign, pos) ==
  [a |-> a, safe |-> safe, doc |-> doc, c |-> comb, sub |-> sub, benign |-> benign, pos |-> ToString(pos)]
SetFields(S, i, fs) == [S EXCEPT ![i] = [@ EXCEPT !.fields = fs]]
FreshField(c, p) == p \o ToString(Len(c.fields) + 1)
LastOfType(S, T) == CHOOSE i \in CtorsOfType(S, T) : \A j \in CtorsOfType(S, T) : j <= i

(* how the OLD schema classifies bit b of mask x of the combinator named like S[i]: *)
(* masks / combinators that did not exist in old are free (absent, hence zero)      *)
OldBitClass(O, S, i, x, b) ==
  IF ~HasName(O, S[i].name) THEN "free"
  ELSE LET oi == IdxOf(O, S[i].name) IN
       IF x \in NatVars(O[oi]) THEN BitClass(O, oi, x, b) ELSE "free"

AppendTypes(c) == {TInt, TNat}

---- (* SAFE *)
(* Documented rule for functions (text of the linter's own messages): arguments are appended   *)
(* either under free bits of masks the old function already has, or after ONE new unmasked #   *)
(* argument that is the field mask of every other new argument -- not both in one evolution.   *)
OldFieldCount(O, c) == IF HasName(O, c.name) THEN Len(O[IdxOf(O, c.name)].fields) ELSE Len(c.fields)
NewMaskOf(O, c) ==     \* the unmasked # argument appended to function c since O, or ""
  LET n == OldFieldCount(O, c) IN
  IF c.fn /\ Len(c.fields) > n /\ c.fields[n + 1].ty.t = "#" /\ c.fields[n + 1].mask = "" THEN c.fields[n + 1].name ELSE ""
AppendMaskedField(O, S) ==
  { [s |-> SetFields(S, i, Append(S[i].fields, Field(FreshField(S[i], "zf"), ty, x, b))),
     e |-> Entry("AppendMaskedField", TRUE, TRUE, S[i].name, IF x \in Range(S[i].targs) THEN "template-mask" ELSE "field-mask", FALSE, <<i, x, b, ty.t>>)]
    : <<i, x, b, ty>> \in { q \in (1..Len(S)) \X AllNatVars(S) \X Bits \X {TInt, TNat} :
                              /\ q[2] \in NatVars(S[q[1]]) /\ Editable(S, q[1])
                              /\ q[4] = TNat => q[3] = 0
                              /\ NewMaskOf(O, S[q[1]]) \in {"", q[2]}
                              /\ OldBitClass(O, S, q[1], q[2], q[3]) = "free" } }

AppendConstructor(O, S) ==
  { LET l == LastOfType(S, T)
        first == S[CHOOSE i \in CtorsOfType(S, T) : \A j \in CtorsOfType(S, T) : i <= j]
        nc == [fn |-> FALSE, name |-> S[l].name \o "N", typ |-> T, explicit |-> TRUE, tag |-> FreshTag(S), targs |-> first.targs,
               fields |-> <<Field("v", TInt, "", 0)>>, res |-> TInt]
    IN [s |-> InsertAfter(S, l, nc), e |-> Entry("AppendConstructor", TRUE, TRUE, nc.name, "boxed-only", FALSE, T)]
    : T \in {T \in TypeNames(S) : ~UsedBare(S, T) /\ ~UsedBare(O, T)} }

NewTypeVariants(S) ==
  LET k == ToString(Len(S) + 1) IN
  { [fn |-> FALSE, name |-> "zt" \o k, typ |-> "Zt" \o k, explicit |-> TRUE, tag |-> FreshTag(S), targs |-> <<>>,
     fields |-> <<Field("a", TInt, "", 0)>>, res |-> TInt],
    [fn |-> FALSE, name |-> "zt" \o k, typ |-> "Zt" \o k, explicit |-> TRUE, tag |-> FreshTag(S), targs |-> <<"m">>,
     fields |-> <<Field("a", TE("string", TRUE, <<>>), "", 0), Field("b", TInt, "m", 0)>>, res |-> TInt] }
AddType(O, S) ==
  { [s |-> Append(S, c), e |-> Entry("AddType", TRUE, TRUE, c.name, IF c.targs = <<>> THEN "plain" ELSE "with-mask", FALSE, c.targs)] : c \in NewTypeVariants(S) }

NewFnVariants(S) ==
  LET k == ToString(Len(S) + 1) IN
  { [fn |-> TRUE, name |-> "zq" \o k, typ |-> "", explicit |-> TRUE, tag |-> FreshTag(S), targs |-> <<>>,
     fields |-> <<Field("fm", TNat, "", 0), Field("x", TInt, "", 0)>>, res |-> TE("int", FALSE, <<>>)],
    [fn |-> TRUE, name |-> "zq" \o k, typ |-> "", explicit |-> TRUE, tag |-> FreshTag(S), targs |-> <<>>,
     fields |-> <<>>, res |-> TE("int", FALSE, <<>>)] }
AddFunction(O, S) ==
  { [s |-> Append(S, c), e |-> Entry("AddFunction", TRUE, TRUE, c.name, IF c.fields = <<>> THEN "no-args" ELSE "mask-first", FALSE, Len(c.fields))] : c \in NewFnVariants(S) }

(* a function that has no masked argument yet gets a new field mask and an argument under it *)
AppendFunctionMaskAndArgs(O, S) ==
  { LET c == S[i]  m == FreshField(c, "zm") IN
    [s |-> SetFields(S, i, c.fields \o <<Field(m, TNat, "", 0), Field("za" \o ToString(Len(c.fields) + 2), TInt, m, b)>>),
     e |-> Entry("AppendFunctionMaskAndArgs", TRUE, TRUE, c.name,
                 IF \E j \in 1..Len(c.fields) : c.fields[j].ty.t = "#" THEN "has-nat" ELSE "no-nat", FALSE, <<i, b>>)]
    : <<i, b>> \in {q \in FnIdxs(S) \X Bits : /\ \A j \in 1..Len(S[q[1]].fields) : S[q[1]].fields[j].mask = ""
                                              /\ HasName(O, S[q[1]].name) /\ Editable(S, q[1])
                                              /\ Len(S[q[1]].fields) = OldFieldCount(O, S[q[1]])} }

---- (* UNSAFE, documented *)
(* Unsafe edits modify what the OLD schema already has (an edit of a field or combinator that  *)
(* an earlier edit of the same evolution created is just another way to write that earlier     *)
(* edit): positions are restricted to old combinators / old fields.                            *)
InOld(O, c) == HasName(O, c.name) /\ O[IdxOf(O, c.name)].fn = c.fn
OldPos(O, S, i, j) == InOld(O, S[i]) /\ j <= OldFieldCount(O, S[i]) /\ Editable(S, i)
OldType(O, T) == T \in TypeNames(O)
RemoveConstructor(O, S) ==
  { [s |-> RemoveAt(S, i), e |-> Entry("RemoveConstructor", FALSE, TRUE, S[i].name,
                                        IF Cardinality(CtorsOfType(S, S[i].typ)) > 1 THEN "union-variant" ELSE "whole-type", FALSE, i)]
    : i \in {i \in CtorIdxs(S) : InOld(O, S[i]) /\ (Cardinality(CtorsOfType(S, S[i].typ)) > 1 \/ RefsToType(S, S[i].typ) = {})} }
RemoveFunction(O, S) ==
  { [s |-> RemoveAt(S, i), e |-> Entry("RemoveFunction", FALSE, TRUE, S[i].name, "", FALSE, i)] : i \in {i \in FnIdxs(S) : InOld(O, S[i])} }

RemoveField(O, S) ==
  { [s |-> SetFields(S, i, RemoveAt(S[i].fields, j)),
     e |-> Entry("RemoveField", FALSE, TRUE, S[i].name, IF j = Len(S[i].fields) THEN "last" ELSE "inner", FALSE, <<i, j>>)]
    : <<i, j>> \in { q \in (1..Len(S)) \X (1..8) :
                       /\ q[2] <= Len(S[q[1]].fields) /\ OldPos(O, S, q[1], q[2])
                       /\ LET f == S[q[1]].fields[q[2]] IN f.ty.t = "#" => ~VarReferenced(S[q[1]], f.name) } }

(* drop the last template parameter of a type: masks on it disappear, uses become the constant 0, *)
(* every application loses the argument                                                          *)
DropArgTE(S, T, te) ==
  LET RECURSIVE D(_)
      D(n) == LET as == [k \in 1..Len(n.args) |-> IF n.args[k].k = "ty" THEN ArgT(D(n.args[k].ty)) ELSE n.args[k]] IN
              IF ~(n.t \in Builtins) /\ TypeOfRef(S, n.t) = T /\ Len(as) > 0
              THEN [n EXCEPT !.args = SubSeq(as, 1, Len(as) - 1)] ELSE [n EXCEPT !.args = as]
  IN D(te)
ZeroRefTE(te, x) ==
  LET RECURSIVE Z(_)
      Z(n) == [n EXCEPT !.args = [k \in 1..Len(n.args) |->
                 IF n.args[k].k = "ty" THEN ArgT(Z(n.args[k].ty))
                 ELSE IF n.args[k].k = "r" /\ n.args[k].r = x THEN ArgN(0) ELSE n.args[k]]]
  IN Z(te)
RemoveTemplateArg(O, S) ==
  { LET k == Len(S[CHOOSE i \in CtorsOfType(S, T) : TRUE].targs)
        S1 == [i \in 1..Len(S) |->
                 LET c == S[i] IN
                 IF ~c.fn /\ c.typ = T
                 THEN LET x == c.targs[k] IN
                      [c EXCEPT !.targs = SubSeq(c.targs, 1, k - 1),
                                !.fields = [j \in 1..Len(c.fields) |->
                                   [c.fields[j] EXCEPT !.ty = ZeroRefTE(@, x),
                                                       !.mask = IF @ = x THEN "" ELSE @,
                                                       !.bit = IF c.fields[j].mask = x THEN 0 ELSE @]]]
                 ELSE c]
        S2 == [i \in 1..Len(S1) |->
                 [S1[i] EXCEPT !.fields = [j \in 1..Len(S1[i].fields) |-> [S1[i].fields[j] EXCEPT !.ty = DropArgTE(S, T, @)]],
                               !.res = DropArgTE(S, T, @)]]
        referenced == UsedT(S, T, k) # {}           \* the parameter decides a field presence or an array size
    IN [s |-> S2, e |-> Entry("RemoveTemplateArg", FALSE, TRUE, T, IF referenced THEN "referenced" ELSE "unreferenced", ~referenced, T)]
    : T \in {T \in TypeNames(S) : /\ OldType(O, T) /\ Len(S[CHOOSE i \in CtorsOfType(S, T) : TRUE].targs) > 0
                                   /\ \A i \in CtorsOfType(S, T) : Editable(S, i)} }

(* one-point changes of a type expression: [te, sub, benign].  benign = "not claimed to      *)
(* break the wire" (changes of nat arguments, see ClaimedArg).  UnsafeBreaks is asserted for *)
(* every instance that is not flagged; the harness reports how many flagged ones break.      *)
NextScalar(t) == CASE t = "int" -> "long" [] t = "long" -> "string" [] t = "string" -> "int"
Alt(te, sub) == [te |-> te, sub |-> sub, benign |-> FALSE]
TopAlts(S, te) ==
  (IF te.t \in Scalars THEN {Alt([te EXCEPT !.t = NextScalar(te.t)], "name")} ELSE {})
  \cup (IF ~(te.t \in Scalars \cup {"#"}) THEN {Alt(TInt, "name")} ELSE {})
  \cup (IF te.t \in (Builtins \ {"#"}) THEN {Alt([te EXCEPT !.bare = ~te.bare], "boxedness")}
        ELSE IF te.t \in Builtins THEN {}
        ELSE IF IsCtorName(S, te.t) THEN {Alt([te EXCEPT !.t = TypeOfRef(S, te.t), !.bare = FALSE], "boxedness")}
        ELSE IF te.bare THEN {Alt([te EXCEPT !.bare = FALSE], "boxedness")}
        ELSE IF Cardinality(CtorsOfType(S, te.t)) = 1 THEN {Alt([te EXCEPT !.bare = TRUE], "boxedness")}
        ELSE {})
NatAlts(a, vars, claim) ==     \* claim: the change is claimed to break the wire
  IF a.k = "n" THEN {[a |-> ArgN((a.n + 1) % 4), sub |-> "natconst", benign |-> ~claim]}
  ELSE {[a |-> ArgN(0), sub |-> "natref-to-const", benign |-> ~claim]}
       \cup {[a |-> ArgR(y), sub |-> "natref", benign |-> ~claim] : y \in vars \ {a.r}}
(* only the size of an array of elements that always take bytes is claimed; whether another nat *)
(* argument matters depends on which masks of the callee are reachable for the values passed    *)
ClaimedArg(te, k) == te.t = "Tuple" /\ k = 2 /\ te.args[1].k = "ty" /\ te.args[1].ty.t \in Scalars \cup {"Vector"}
RECURSIVE Variants(_, _, _)
Variants(S, te, vars) ==
  TopAlts(S, te)
  \cup UNION { IF te.args[k].k = "ty"
               THEN {[te |-> [te EXCEPT !.args[k] = ArgT(v.te)], sub |-> "nested-" \o v.sub, benign |-> v.benign] : v \in Variants(S, te.args[k].ty, vars)}
               ELSE {[te |-> [te EXCEPT !.args[k] = v.a], sub |-> v.sub, benign |-> v.benign] : v \in NatAlts(te.args[k], vars, ClaimedArg(te, k))}
             : k \in 1..Len(te.args) }

(* the result of a function is always boxed *)
ResVariants(S, te, vars) ==
  {v \in Variants(S, te, vars) : ~v.te.bare /\ ~IsCtorName(S, v.te.t)}
  \cup (IF te.t \in Scalars THEN {} ELSE {Alt(TE("int", FALSE, <<>>), "name")})
ChangeFieldType(O, S) ==
  { [s |-> SetFields(S, q[1], [S[q[1]].fields EXCEPT ![q[2]] = [@ EXCEPT !.ty = q[3].te]]),
     e |-> Entry("ChangeFieldType", FALSE, TRUE, S[q[1]].name, q[3].sub, q[3].benign, <<q[1], q[2], q[3].te>>)]
    : q \in UNION { UNION { {<<i, j, v>> : v \in
                               (IF S[i].fields[j].ty.t = "#"
                                THEN (IF VarReferenced(S[i], S[i].fields[j].name) THEN {} ELSE {Alt(TInt, "name")})
                                ELSE Variants(S, S[i].fields[j].ty, NatVarsBefore(S[i], j)))}
                            : j \in {j \in 1..Len(S[i].fields) : OldPos(O, S, i, j)} }
                  : i \in 1..Len(S) } }
  \cup
  { [s |-> [S EXCEPT ![q[1]] = [@ EXCEPT !.res = q[2].te]],
     e |-> Entry("ChangeFieldType", FALSE, TRUE, S[q[1]].name, "result-" \o q[2].sub, q[2].benign, <<q[1], q[2].te>>)]
    : q \in UNION { {<<i, v>> : v \in ResVariants(S, S[i].res, NatVars(S[i]))} : i \in {i \in FnIdxs(S) : InOld(O, S[i]) /\ Editable(S, i)} } }

MaskedPos(O, S) == UNION { {<<i, j>> : j \in {j \in 1..Len(S[i].fields) : S[i].fields[j].mask # "" /\ OldPos(O, S, i, j)}} : i \in 1..Len(S) }
UnmaskedPos(O, S) == UNION { {<<i, j>> : j \in {j \in 1..Len(S[i].fields) : S[i].fields[j].mask = "" /\ OldPos(O, S, i, j)}} : i \in 1..Len(S) }

ChangeMaskRef(O, S) ==
  { [s |-> SetFields(S, q[1], [S[q[1]].fields EXCEPT ![q[2]] = [@ EXCEPT !.mask = q[3]]]),
     e |-> Entry("ChangeMaskRef", FALSE, TRUE, S[q[1]].name, "", FALSE, q)]
    : q \in UNION { {<<p[1], p[2], y>> : y \in NatVarsBefore(S[p[1]], p[2]) \ {S[p[1]].fields[p[2]].mask}} : p \in MaskedPos(O, S) } }
ChangeMaskBit(O, S) ==
  { [s |-> SetFields(S, q[1], [S[q[1]].fields EXCEPT ![q[2]] = [@ EXCEPT !.bit = q[3]]]),
     e |-> Entry("ChangeMaskBit", FALSE, TRUE, S[q[1]].name, "", FALSE, q)]
    : q \in UNION { {<<p[1], p[2], b>> : b \in Bits \ {S[p[1]].fields[p[2]].bit}} : p \in MaskedPos(O, S) } }
AddMaskToField(O, S) ==
  { [s |-> SetFields(S, q[1], [S[q[1]].fields EXCEPT ![q[2]] = [@ EXCEPT !.mask = q[3], !.bit = q[4]]]),
     e |-> Entry("AddMaskToField", FALSE, TRUE, S[q[1]].name, "", FALSE, q)]
    : q \in UNION { {<<p[1], p[2], y, b>> : y \in NatVarsBefore(S[p[1]], p[2]), b \in {0, MaxBit}} : p \in UnmaskedPos(O, S) } }
RemoveMaskFromField(O, S) ==
  { [s |-> SetFields(S, p[1], [S[p[1]].fields EXCEPT ![p[2]] = [@ EXCEPT !.mask = "", !.bit = 0]]),
     e |-> Entry("RemoveMaskFromField", FALSE, TRUE, S[p[1]].name, "", FALSE, p)]
    : p \in MaskedPos(O, S) }
AppendUnmaskedField(O, S) ==
  { [s |-> SetFields(S, q[1], Append(S[q[1]].fields, Field(FreshField(S[q[1]], "zu"), q[2], "", 0))),
     e |-> Entry("AppendUnmaskedField", FALSE, TRUE, S[q[1]].name,
                 (IF S[q[1]].fn THEN "function-" ELSE "constructor-") \o q[2].t, S[q[1]].fn /\ q[2].t = "#", <<q[1], q[2].t>>)]
    : q \in {i \in 1..Len(S) : InOld(O, S[i]) /\ Editable(S, i)} \X {TInt, TNat} }
  \cup
  (* the compound edit that is documented safe for FUNCTIONS only (AppendFunctionMaskAndArgs): a new unmasked # *)
  (* field followed by a field masked by it, appended to a CONSTRUCTOR -- old values do not contain the mask    *)
  { LET c == S[i]  m == FreshField(c, "zm") IN
    [s |-> SetFields(S, i, c.fields \o <<Field(m, TNat, "", 0), Field("za" \o ToString(Len(c.fields) + 2), TInt, m, 0)>>),
     e |-> Entry("AppendUnmaskedField", FALSE, TRUE, c.name,
                 IF \A j \in 1..Len(c.fields) : c.fields[j].mask = "" THEN "constructor-mask-and-masked-field"
                 ELSE "constructor-mask-and-masked-field-besides-masks", FALSE, <<i, "compound">>)]
    : i \in {i \in CtorIdxs(S) : InOld(O, S[i]) /\ Editable(S, i)} }
ReuseUsedBit(O, S) ==
  { [s |-> SetFields(S, q[1], Append(S[q[1]].fields, Field(FreshField(S[q[1]], "zr"), TInt, q[2], q[3]))),
     e |-> Entry("ReuseUsedBit", FALSE, TRUE, S[q[1]].name,
                 IF q[3] \in (UsedVar(S, q[1], q[2]) \ {SIZE}) THEN "local"
                 ELSE IF q[3] \in FieldFlowVar(S, q[1], q[2]) THEN "outer-scope" ELSE "outer-scope-template-parameter", FALSE, q)]
    : q \in { q \in (1..Len(S)) \X AllNatVars(S) \X Bits :
                /\ q[2] \in NatVars(S[q[1]]) /\ Editable(S, q[1])
                /\ OldBitClass(O, S, q[1], q[2], q[3]) = "used" } }
BareToUnion(O, S) ==
  { LET l == LastOfType(S, T)
        nc == [fn |-> FALSE, name |-> S[l].name \o "N", typ |-> T, explicit |-> TRUE, tag |-> FreshTag(S), targs |-> S[l].targs,
               fields |-> <<Field("v", TInt, "", 0)>>, res |-> TInt]
    IN [s |-> InsertAfter(S, l, nc), e |-> Entry("BareToUnion", FALSE, TRUE, nc.name, "", FALSE, T)]
    : T \in {T \in TypeNames(S) : OldType(O, T) /\ Cardinality(CtorsOfType(S, T)) = 1 /\ UsedBare(S, T)} }

---- (* UNSAFE, not in the documented catalogue (soundness only, C28) *)
ChangeExplicitTag(O, S) ==
  { [s |-> [S EXCEPT ![i] = [@ EXCEPT !.tag = FreshTag(S)]],
     e |-> Entry("ChangeExplicitTag", FALSE, FALSE, S[i].name, IF S[i].fn THEN "function" ELSE "constructor", FALSE, i)]
    : i \in {i \in 1..Len(S) : InOld(O, S[i]) /\ S[i].explicit} }
(* the explicit tag is dropped (the implicit CRC32 takes over) or an implicitly tagged combinator gets an   *)
(* explicit tag; the effective tags of implicit combinators are filled in by the harness from the front end *)
DropExplicitTag(O, S) ==
  { [s |-> [S EXCEPT ![i] = [@ EXCEPT !.explicit = FALSE]],
     e |-> Entry("DropExplicitTag", FALSE, FALSE, S[i].name, IF S[i].fn THEN "function" ELSE "constructor", FALSE, i)]
    : i \in {i \in 1..Len(S) : InOld(O, S[i]) /\ S[i].explicit} }
AddExplicitTag(O, S) ==
  { [s |-> [S EXCEPT ![i] = [@ EXCEPT !.explicit = TRUE, !.tag = FreshTag(S)]],
     e |-> Entry("AddExplicitTag", FALSE, FALSE, S[i].name,
                 IF S[i].fn THEN "function" ELSE IF TagMatters(S, i) THEN "constructor" ELSE "constructor-bare-only", ~TagMatters(S, i), i)]
    : i \in {i \in 1..Len(S) : InOld(O, S[i]) /\ ~S[i].explicit} }
AppendFieldOnSetBit(O, S) ==
  { [s |-> SetFields(S, q[1], Append(S[q[1]].fields, Field(FreshField(S[q[1]], "zs"), TInt, q[2], q[3]))),
     e |-> Entry("AppendFieldOnSetBit", FALSE, FALSE, S[q[1]].name,
                 IF SIZE \in UsedVar(S, q[1], q[2]) \cup MaySetVar(S, q[1], q[2]) THEN "array-size" ELSE "constant-argument", FALSE, q)]
    : q \in { q \in (1..Len(S)) \X AllNatVars(S) \X Bits :
                /\ q[2] \in NatVars(S[q[1]]) /\ Editable(S, q[1])
                /\ OldBitClass(O, S, q[1], q[2], q[3]) = "set" } }

SafeEdits(O, S) == AppendMaskedField(O, S) \cup AppendConstructor(O, S) \cup AddType(O, S) \cup AddFunction(O, S)
                   \cup AppendFunctionMaskAndArgs(O, S)
DocUnsafeEdits(O, S) == RemoveConstructor(O, S) \cup RemoveFunction(O, S) \cup RemoveField(O, S) \cup RemoveTemplateArg(O, S)
                   \cup ChangeFieldType(O, S) \cup ChangeMaskRef(O, S) \cup ChangeMaskBit(O, S) \cup AddMaskToField(O, S)
                   \cup RemoveMaskFromField(O, S) \cup AppendUnmaskedField(O, S) \cup ReuseUsedBit(O, S) \cup BareToUnion(O, S)
UndocUnsafeEdits(O, S) == ChangeExplicitTag(O, S) \cup AppendFieldOnSetBit(O, S) \cup DropExplicitTag(O, S) \cup AddExplicitTag(O, S)
=============================================================================
