------------------------------ MODULE TLValues ------------------------------
(***************************************************************************)
(* The value graph: Mods(T, env, v) is the set of values one modification  *)
(* away from v (change one leaf to another representative of its domain,   *)
(* append / drop an array or dictionary element, switch a union variant,   *)
(* toggle a TL2 optional field), re-validated with Fix so that field masks *)
(* and tuple sizes stay consistent.  A bound K on the number of steps      *)
(* gives all <= K-way combinations of leaf choices without a cartesian     *)
(* product.                                                                *)
(***************************************************************************)
EXTENDS TL1Format

CONSTANTS MaxLen,       \* maximal number of elements of a vector / dictionary
          LongStrings   \* lengths of extra (long) string values, e.g. {253}: the last length of the short form

PrimBase(p) ==
  CASE p = "uint32"  -> {Z4, <<1, 0, 0, 0>>, <<255, 255, 255, 255>>}
    [] p = "int32"   -> {Z4, <<1, 0, 0, 0>>, <<255, 255, 255, 255>>, <<0, 0, 0, 128>>}
    [] p = "float32" -> {Z4, <<0, 0, 128, 63>>, <<0, 0, 192, 127>>, <<0, 0, 128, 255>>, <<1, 0, 0, 0>>, <<0, 0, 0, 128>>}
    [] p = "int64"   -> {Z8, <<1, 0, 0, 0, 0, 0, 0, 0>>, <<255, 255, 255, 255, 255, 255, 255, 255>>, <<0, 0, 0, 0, 0, 0, 0, 128>>}
    [] p = "uint64"  -> {Z8, <<1, 0, 0, 0, 0, 0, 0, 0>>, <<255, 255, 255, 255, 255, 255, 255, 255>>}
    [] p = "float64" -> {Z8, <<0, 0, 0, 0, 0, 0, 240, 63>>, <<1, 0, 0, 0, 0, 0, 248, 127>>, <<0, 0, 0, 0, 0, 0, 240, 127>>, <<1, 0, 0, 0, 0, 0, 0, 0>>, <<0, 0, 0, 0, 0, 0, 0, 128>>}
    [] p = "byte"    -> {<<0>>, <<1>>, <<255>>}
    [] p = "string"  -> {<<>>, <<97>>, <<97, 98, 99, 100>>, <<255, 0>>, <<226, 130, 172, 34, 92, 10>>, <<97, 226, 128, 168, 9, 98>>} \cup {[i \in 1..n |-> 97] : n \in LongStrings}
    [] OTHER         -> BOOLEAN
PrimDom(p) == PrimBase(p) \cup ExtraVals(p)   \* ExtraVals: per-run extra leaf values (SchemaData), e.g. C34's byte-class strings

(* dictionary keys: a small ordered domain per key type *)
KeyDom(kt) ==
  CASE kt = "string" -> <<<<>>, <<97>>, <<97, 98>>, <<98>>>>
    \* ascending in the order of the key type (values are built in this order and map-backed
    \* dictionaries are written sorted). Signed keys start with the most negative value: it must
    \* sort first although it is 2^31 / 2^63 away from its neighbour
    [] kt = "int32"  -> <<<<0, 0, 0, 128>>, Z4, <<1, 0, 0, 0>>, <<0, 1, 0, 0>>>>
    [] kt = "uint32" -> <<Z4, <<1, 0, 0, 0>>, <<0, 1, 0, 0>>, <<0, 0, 0, 128>>>>
    [] kt = "int64"  -> <<<<0, 0, 0, 0, 0, 0, 0, 128>>, Z8, <<1, 0, 0, 0, 0, 0, 0, 0>>, <<0, 1, 0, 0, 0, 0, 0, 0>>>>
    [] kt = "uint64" -> <<Z8, <<1, 0, 0, 0, 0, 0, 0, 0>>, <<0, 1, 0, 0, 0, 0, 0, 0>>, <<0, 0, 0, 0, 0, 0, 0, 128>>>>
    [] kt = "byte" -> <<<<0>>, <<1>>, <<2>>, <<200>>>>
    [] OTHER -> <<>>

(* does the value hold a negative zero float anywhere *)
RECURSIVE HasNegZero(_, _)
HasNegZero(tn, v) ==
  LET t == TY(tn) IN
  CASE t.k = "prim" -> (t.prim = "float32" /\ v = <<0, 0, 0, 128>>) \/ (t.prim = "float64" /\ v = <<0, 0, 0, 0, 0, 0, 0, 128>>)
    [] t.k = "struct" -> \E i \in 1..Len(t.fields) :
                           IF IsOpt(t.fields[i]) THEN IsP(v[i]) /\ ~t.fields[i].isbit /\ HasNegZero(t.fields[i].t, PV(v[i]))
                           ELSE HasNegZero(t.fields[i].t, v[i])
    [] t.k = "union" -> HasNegZero(t.variants[v.i], v.v)
    [] t.k \in {"array", "dict"} -> \E j \in 1..Len(v) : HasNegZero(t.elem.t, v[j])

(* does the value hold a set field whose presence exists in TL2 only (x?:T, x:bit of a TL2-origin type) *)
RECURSIVE HasTL2OnlyOpt(_, _)
HasTL2OnlyOpt(tn, v) ==
  LET t == TY(tn) IN
  CASE t.k = "prim" -> FALSE
    [] t.k = "struct" -> \E i \in 1..Len(t.fields) :
                           LET f == t.fields[i] IN
                           IF IsOpt(f) THEN IsP(v[i]) /\ (~NatMasked(f) \/ (~f.isbit /\ HasTL2OnlyOpt(f.t, PV(v[i]))))
                           ELSE HasTL2OnlyOpt(f.t, v[i])
    [] t.k = "union" -> HasTL2OnlyOpt(t.variants[v.i], v.v)
    [] t.k \in {"array", "dict"} -> \E j \in 1..Len(v) : HasTL2OnlyOpt(t.elem.t, v[j])

(* INVALID values: exactly one dynamic tuple (n*[T]) somewhere in v gets one element too *)
(* many or one too few, nothing else is adjusted (what an application can build by hand) *)
RECURSIVE BadMods(_, _, _)
BadMods(tn, env, v) ==
  LET t == TY(tn) IN
  CASE t.k = "prim" -> {}
    [] t.k = "struct" ->
         UNION { LET f == t.fields[i]  cenv == ArgsVal(f.na, env, t, v) IN
                 IF IsOpt(f) THEN (IF IsP(v[i]) /\ ~f.isbit THEN {[v EXCEPT ![i] = Pres(w)] : w \in BadMods(f.t, cenv, PV(v[i]))} ELSE {})
                 ELSE {[v EXCEPT ![i] = w] : w \in BadMods(f.t, cenv, v[i])}
               : i \in 1..Len(t.fields) }
    [] t.k = "union" -> {[i |-> v.i, v |-> w] : w \in BadMods(t.variants[v.i], ArgsVal(t.elemNa, env, t, <<>>), v.v)}
    [] t.k \in {"array", "dict"} ->
         LET cenv == ArgsVal(t.elem.na, env, t, <<>>) IN
         (IF t.k = "array" /\ t.tuple /\ t.dyn
          THEN {Append(v, Default(t.elem.t, cenv))} \cup (IF Len(v) > 0 THEN {SubSeq(v, 1, Len(v) - 1)} ELSE {})
          ELSE {})
         \cup UNION { {[v EXCEPT ![j] = w] : w \in BadMods(t.elem.t, cenv, v[j])} : j \in 1..Len(v) }

RECURSIVE Mods(_, _, _)
EntryMods(t, env, v, i) ==
  LET f == t.fields[i]
      cenv == ArgsVal(f.na, env, t, v)
      Leaf(x) == IF Len(f.dom) > 0 THEN {f.dom[j] : j \in 1..Len(f.dom)} \ {x} ELSE Mods(f.t, cenv, x)
  IN IF ~IsOpt(f) THEN Leaf(v[i])
     ELSE IF NatMasked(f) THEN (IF IsP(v[i]) /\ ~f.isbit THEN {Pres(w) : w \in Leaf(PV(v[i]))} ELSE {})
     ELSE IF IsP(v[i]) THEN {Absent} \cup (IF f.isbit THEN {} ELSE {Pres(w) : w \in Leaf(PV(v[i]))})
     ELSE {Pres(FDefault(f, Default(f.t, cenv)))}
Mods(tn, env, v) ==
  LET t == TY(tn) IN
  CASE t.k = "prim" -> PrimDom(t.prim) \ {v}
    [] t.k = "struct" ->
         UNION { {Fix(tn, env, [v EXCEPT ![i] = e]) : e \in EntryMods(t, env, v, i)} : i \in 1..Len(t.fields) }
    [] t.k = "union" ->
         LET uenv == ArgsVal(t.elemNa, env, t, <<>>) IN
         {[i |-> j, v |-> Default(t.variants[j], uenv)] : j \in (1..Len(t.variants)) \ {v.i}}
         \cup {[i |-> v.i, v |-> w] : w \in Mods(t.variants[v.i], uenv, v.v)}
    [] t.k = "array" ->
         LET cenv == ArgsVal(t.elem.na, env, t, <<>>) IN
         (IF ~t.tuple /\ Len(v) < MaxLen THEN {Append(v, Default(t.elem.t, cenv))} ELSE {})
         \cup (IF ~t.tuple /\ Len(v) > 0 THEN {SubSeq(v, 1, Len(v) - 1)} ELSE {})
         \cup UNION { {[v EXCEPT ![j] = w] : w \in Mods(t.elem.t, cenv, v[j])} : j \in 1..Len(v) }
    [] t.k = "dict" ->
         LET cenv == ArgsVal(t.elem.na, env, t, <<>>)
             et == TY(t.elem.t)
             kd == KeyDom(DictKeyType(t))
             venv == ArgsVal(et.fields[2].na, cenv, et, <<>>)
         IN (IF Len(v) < MaxLen /\ Len(v) < Len(kd) /\ (Len(v) = 0 \/ v[Len(v)][1] # <<255>>)   \* keys stay ascending
             THEN {Append(v, <<kd[Len(v) + 1], Default(et.fields[2].t, venv)>>)} ELSE {})
            \cup (IF Len(v) > 0 THEN {SubSeq(v, 1, Len(v) - 1)} ELSE {})
            \* the key of the last element becomes a string that is not valid UTF-8 (it sorts after every
            \* key of KeyDom, so the order is kept): C05 quantifies over such dictionary keys
            \cup (IF Len(v) > 0 /\ DictKeyType(t) = "string" /\ v[Len(v)][1] # <<255>>
                  THEN {[v EXCEPT ![Len(v)] = <<<<255>>, v[Len(v)][2]>>]} ELSE {})
            \cup UNION { {[v EXCEPT ![j] = <<v[j][1], w>>] : w \in Mods(et.fields[2].t, venv, v[j][2])} : j \in 1..Len(v) }
=============================================================================
