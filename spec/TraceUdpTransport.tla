-------------------------- MODULE TraceUdpTransport --------------------------
(***************************************************************************)
(* Trace validation (code -> spec) for the UDP transport.  The in-package  *)
(* driver logs one event per simulator command: the command, the datagram  *)
(* emitted (decoded at send time), the header handed to goWrite and the    *)
(* deliveries of a read step, and the projection of the transport the      *)
(* command ran on.                                                         *)
(*                                                                         *)
(* mode "strict" (no restarts): every event must be the corresponding      *)
(* action of UdpTransport (data plane; Sched = FALSE) and the state it     *)
(* produces must equal the logged projection - windows, ack sets, queues,  *)
(* memory, waiters, allocator counters - so the step is determinate.       *)
(* After the settle loop ("done") the state must be Quiescent.             *)
(*                                                                         *)
(* mode "loose" (generation bumps / restarts): the projection-level core   *)
(* only - per connection object monotone prefixes, memory within the limit *)
(* and equal to what the live connections hold (so a reset released        *)
(* everything), every delivery was sent and happens at most once.          *)
(*                                                                         *)
(* "sum" events are state independent summaries of scenarios whose full    *)
(* trace was not recorded.  Traces are concatenated; "reset" starts one.   *)
(***************************************************************************)
EXTENDS UdpTransport, Json

Trace == ndJsonDeserialize("trace.ndjson")

VARIABLES
  l,      \* index of the next event
  mode,   \* "strict" | "loose"
  sent,   \* messages submitted: [src, dst, id, size, hash]
  dset,   \* messages delivered (loose mode)
  lp      \* loose mode: <<t, p>> -> last logged [g, oP, oN, iP, iN, kP]

tvars == <<vars, l, mode, sent, dset, lp>>

TraceChunkCounts(size) == 1 .. 64
ToSet(s) == {s[j] : j \in 1 .. Len(s)}
Ends == {e \in Transports \X Transports : e[1] # e[2]}
NoProj == [c |-> 0, g |-> 0, oP |-> 0, oN |-> 0, iP |-> 0, iN |-> 0, kP |-> 0]

TInit ==
  /\ Init /\ l = 1 /\ mode = "strict" /\ sent = {} /\ dset = {}
  /\ lp = [e \in Ends |-> NoProj]

---------------------------------------------------------------------------
(* allocator counters of the simulator, derived from the specification state *)
StartedIn(c) == Cardinality({j \in 1 .. Len(lay[c]) :
                   \E s \in lay[c][j].first .. (lay[c][j].first + lay[c][j].n - 1) : s < iP[c] \/ s \in iRcv[c]})
AllocOf(c)   == Len(queue[c]) + Len(lay[c]) + StartedIn(c)
DeallocOf(c) == DoneMsgs(lay[c], oP[c]) + Len(dlv[c])
RECURSIVE AllocSum(_), DeallocSum(_)
AllocSum(S)   == IF S = {} THEN 0 ELSE LET x == CHOOSE y \in S : TRUE IN AllocOf(x) + AllocSum(S \ {x})
DeallocSum(S) == IF S = {} THEN 0 ELSE LET x == CHOOSE y \in S : TRUE IN DeallocOf(x) + DeallocSum(S \ {x})

(* the logged projection of transport e.t equals the specification state *)
ConnProjOK(t, cs) ==
  LET p == cs.p  c == ConnOf(t, p) IN
  /\ p \in Peers(t) /\ cs.g = 0
  /\ IF t < p
     THEN /\ oP[c] = cs.oP /\ oN[c] = cs.oN /\ oAck[c] = ToSet(cs.oA) /\ Len(queue[c]) = cs.q
          /\ cs.iP = 0 /\ cs.iN = 0 /\ cs.kP = 0 /\ cs.tot = 0
     ELSE /\ iP[c] = cs.iP /\ iN[c] = cs.iN /\ iRcv[c] = ToSet(cs.iR)
          /\ iTot[c] = cs.tot /\ req[c] = cs.rq /\ kP[c] = cs.kP /\ kS[c] = ToSet(cs.kS)
          /\ cs.oN = 0 /\ cs.q = 0

ProjOK(t, e) ==
  /\ mem[t] = e.mem
  /\ waitQ[t] = [j \in 1 .. Len(e.wq) |-> ConnOf(t, e.wq[j])]
  /\ \A j \in 1 .. Len(e.cs) : ConnProjOK(t, e.cs[j])
  \* a connection object that does not exist yet has done nothing
  /\ \A p \in Peers(t) : (\A j \in 1 .. Len(e.cs) : e.cs[j].p # p) =>
        LET c == ConnOf(t, p) IN
        IF t < p THEN oN[c] = 0 /\ queue[c] = <<>> ELSE iN[c] = 0 /\ kP[c] = 0 /\ iTot[c] = 0

CountersOK(e) ==
  /\ e.al = AllocSum(Conns)
  /\ e.de = DeallocSum(Conns)

Keep == UNCHANGED <<mode, dset, lp>>

---------------------------------------------------------------------------
(* strict mode: one specification action per event *)
SNew(e) ==
  LET c == <<e.t, e.dst>> IN
  /\ c \in Conns
  /\ NewMessage(c, e.id, e.size)
  /\ \A m \in sent : ~(m.src = e.t /\ m.dst = e.dst /\ m.id = e.id)
  /\ sent' = sent \cup {[src |-> e.t, dst |-> e.dst, id |-> e.id, size |-> e.size, hash |-> e.hash]}

SWrite(e) ==
  /\ UNCHANGED sent
  /\ IF e.to = -1 THEN Write(e.t, NoSend)
     ELSE LET c == ConnOf(e.t, e.to)
              snd == [peer |-> e.to, id |-> e.id, ns |-> [j \in 1 .. Len(e.sl) |-> e.sl[j][4]],
                      lo |-> e.lo, hi |-> e.hi, nk |-> (e.nkf = 1)]
          IN /\ e.to \in Peers(e.t)
             /\ e.kind \in {"data", "ack", "nack"}
             \* the messages sliced are the heads of the queue, in order
             /\ \A j \in 1 .. Len(e.sl) : /\ j <= Len(queue[c])
                                          /\ queue[c][j].id = e.sl[j][1] /\ queue[c][j].size = e.sl[j][2]
             /\ Write(e.t, snd)
             /\ \A j \in 1 .. Len(e.sl) : lay'[c][Len(lay[c]) + j].first = e.sl[j][3]
             \* what the datagram says about acknowledgements is what the ack builder knows
             /\ LET dg == net'[e.to][Len(net'[e.to])] IN
                dg.ackP = e.ap /\ dg.ackS = ToSet(e.as) /\ dg.nack = ToSet(e.nk)

SRead(e) ==
  LET t == e.t
      k == (e.i % Len(net[t])) + 1
      c == ConnOf(t, e.p)
  IN /\ net[t] # <<>> /\ e.h = 1
     /\ net[t][k].id = e.id /\ net[t][k].src = e.p
     /\ Read(t, e.i)
     \* the header handed to goWrite
     /\ LET h == hdrQ'[t][Len(hdrQ'[t])] IN
        h.peer = e.p /\ h.lo = e.lo /\ h.hi = e.hi /\ h.ackP = e.ap /\ h.ackS = ToSet(e.as)
     \* deliveries: in order, on the connection the datagram came from, intact
     /\ dlv'[c] = dlv[c] \o [j \in 1 .. Len(e.dl) |-> e.dl[j][2]]
     /\ \A j \in 1 .. Len(e.dl) :
          [src |-> e.dl[j][1], dst |-> t, id |-> e.dl[j][2], size |-> e.dl[j][3], hash |-> e.dl[j][4]] \in sent
     /\ UNCHANGED sent

SDone(e) ==
  /\ \/ e.settle = "ok" /\ Quiescent /\ e.al = e.de
     \* the driver's fair rounds made no progress: only the named deviation is acceptable
     \/ e.settle = "stuck" /\ SenderUnawareOfDelivery
  /\ \A j \in 1 .. Len(e.ts) : ProjOK(e.ts[j].t, e.ts[j])
  /\ CountersOK(e)
  /\ e.nsent = Cardinality(sent) /\ e.ndlv = e.nsent
  /\ \A c \in Conns : Len(dlv[c]) = Cardinality({m \in sent : m.src = c[1] /\ m.dst = c[2]})
  /\ UNCHANGED <<vars, sent>>

\* the strict core of the specification holds in every state of a strict trace
CoreHolds == Core /\ NetOK /\ DeliveredOK /\ MemOK

Strict(e) ==
  /\ mode = "strict" /\ Keep
  /\ \/ e.op = "n" /\ SNew(e) /\ ProjOK(e.t, e)' /\ CountersOK(e)'
     \/ e.op = "w" /\ SWrite(e) /\ ProjOK(e.t, e)' /\ CountersOK(e)'
     \/ e.op = "r" /\ SRead(e) /\ ProjOK(e.t, e)' /\ CountersOK(e)'
     \/ e.op = "e" /\ EncHdr(e.t) /\ UNCHANGED sent /\ ProjOK(e.t, e)' /\ CountersOK(e)'
     \/ e.op = "d" /\ net[e.t] # <<>> /\ net[e.t][(e.i % Len(net[e.t])) + 1].id = e.id
                   /\ Dup(e.t, e.i) /\ UNCHANGED sent /\ ProjOK(e.t, e)'
     \/ e.op = "l" /\ net[e.t] # <<>> /\ net[e.t][(e.i % Len(net[e.t])) + 1].id = e.id
                   /\ Loss(e.t, e.i) /\ UNCHANGED sent /\ ProjOK(e.t, e)'
     \* timers only touch the scheduling layer; a command without effect changes nothing
     \/ e.op \in {"t", "x"} /\ UNCHANGED <<vars, sent>> /\ ProjOK(e.t, e) /\ CountersOK(e)
     \/ e.op = "settle" /\ Settle /\ UNCHANGED sent
     \/ e.op = "done" /\ SDone(e)
  /\ CoreHolds'

---------------------------------------------------------------------------
(* loose mode: projection-level core.  A connection object is identified   *)
(* by its incarnation number c (a restart replaces the object).            *)
LooseConn(t, cs) ==
  LET prev == lp[<<t, cs.p>>] IN
  /\ cs.c >= prev.c
  /\ cs.oP <= cs.oN /\ cs.iP <= cs.iN /\ cs.kP <= cs.iP /\ cs.beg <= cs.tot
  /\ cs.c = prev.c => /\ cs.g = prev.g
                      /\ cs.oP >= prev.oP /\ cs.oN >= prev.oN /\ cs.iP >= prev.iP
                      /\ cs.iN >= prev.iN /\ cs.kP >= prev.kP
  /\ cs.c # prev.c => cs.g >= prev.g

RECURSIVE HeldLogged(_, _)
HeldLogged(cs, j) == IF j > Len(cs) THEN 0 ELSE (cs[j].tot - cs[j].beg) + HeldLogged(cs, j + 1)

\* memory within the limit and fully accounted for by the live connections:
\* whatever a reset connection held must have been released
LooseMem(e) == e.mem >= 0 /\ e.mem <= MemLimit /\ e.mem = HeldLogged(e.cs, 1)

LooseProj(t, e) ==
  /\ LooseMem(e)
  /\ \A j \in 1 .. Len(e.cs) : e.cs[j].p \in Peers(t) /\ LooseConn(t, e.cs[j])
  /\ e.de <= e.al

LpAfter(t, e) ==
  [x \in Ends |-> IF x[1] = t /\ \E j \in 1 .. Len(e.cs) : e.cs[j].p = x[2]
                  THEN LET cs == e.cs[CHOOSE j \in 1 .. Len(e.cs) : e.cs[j].p = x[2]] IN
                       [c |-> cs.c, g |-> cs.g, oP |-> cs.oP, oN |-> cs.oN, iP |-> cs.iP, iN |-> cs.iN, kP |-> cs.kP]
                  ELSE lp[x]]

\* SenderUnawareOfDelivery on logged projections (restart traces): every pair of connection
\* ends is of the same generation, its receiver has and has acknowledged everything the
\* sender sliced, nothing is queued, no memory is held; some sender window is still open
LoggedEnds(ts) == {<<j, k>> \in (1 .. Len(ts)) \X (1 .. 16) : k <= Len(ts[j].cs)}
LoggedSenderUnaware(ts) ==
  /\ \A j \in 1 .. Len(ts) : ts[j].mem = 0
  /\ \A x \in LoggedEnds(ts) :
        LET t == ts[x[1]].t  o == ts[x[1]].cs[x[2]] IN
        (t < o.p /\ o.oN > 0) =>
           /\ o.q = 0
           /\ \E y \in LoggedEnds(ts) :
                 LET i == ts[y[1]].cs[y[2]] IN
                 /\ ts[y[1]].t = o.p /\ i.p = t /\ i.g = o.g
                 /\ i.iP = o.oN /\ i.iN = o.oN /\ i.kP = o.oN /\ i.kS = <<>> /\ i.rq = 0
  /\ \E x \in LoggedEnds(ts) : LET o == ts[x[1]].cs[x[2]] IN ts[x[1]].t < o.p /\ o.oP < o.oN

Loose(e) ==
  /\ mode = "loose" /\ UNCHANGED <<vars, mode>>
  /\ \/ /\ e.op \in {"n", "w", "r", "e", "d", "l", "t", "x"}
        /\ LooseProj(e.t, e)
        /\ lp' = LpAfter(e.t, e)
        /\ sent' = IF e.op = "n"
                   THEN sent \cup {[src |-> e.t, dst |-> e.dst, id |-> e.id, size |-> e.size, hash |-> e.hash]}
                   ELSE sent
        /\ IF e.op = "r"
           THEN LET new == {[src |-> e.dl[j][1], dst |-> e.t, id |-> e.dl[j][2], size |-> e.dl[j][3],
                             hash |-> e.dl[j][4]] : j \in 1 .. Len(e.dl)} IN
                /\ new \subseteq sent /\ new \cap dset = {} /\ Cardinality(new) = Len(e.dl)
                /\ dset' = dset \cup new
           ELSE UNCHANGED dset
     \/ /\ e.op = "settle" /\ UNCHANGED <<sent, dset, lp>>
     \/ /\ e.op = "done"
        /\ e.settle = "ok" \/ (e.settle = "stuck" /\ LoggedSenderUnaware(e.ts))
        /\ \A j \in 1 .. Len(e.ts) : LooseMem(e.ts[j]) /\ e.ts[j].wq = <<>>
        /\ e.ndlv = Cardinality(dset) /\ e.ndlv <= e.nsent /\ e.de <= e.al
        /\ UNCHANGED <<sent, dset, lp>>

---------------------------------------------------------------------------
(* summary of a scenario that was executed without a full trace *)
SumEndOK(ts, a, b) ==    \* both ends of connection a -> b in the final projections
  \A j1, j2 \in 1 .. Len(ts) : \A k1 \in 1 .. Len(ts[j1].cs) : \A k2 \in 1 .. Len(ts[j2].cs) :
     (ts[j1].t = a /\ ts[j2].t = b /\ ts[j1].cs[k1].p = b /\ ts[j2].cs[k2].p = a) =>
        LET o == ts[j1].cs[k1]  i == ts[j2].cs[k2] IN
        /\ o.q = 0 /\ o.oP = o.oN /\ i.iP = o.oN /\ i.iN = o.oN /\ i.kP = o.oN /\ i.kS = <<>> /\ i.rq = 0

Summary(e) ==
  /\ e.op = "sum"
  /\ e.settle = "ok"
  /\ \A j \in 1 .. Len(e.ts) : LooseMem(e.ts[j]) /\ e.ts[j].wq = <<>>
  /\ e.restarts = 0 =>
       /\ \A j \in 1 .. Len(e.ts) : e.ts[j].mem = 0
       /\ e.al = e.de
       /\ ToSet(e.sent) = ToSet(e.dlv) /\ Len(e.sent) = Len(e.dlv)
       /\ Cardinality(ToSet(e.dlv)) = Len(e.dlv)
       /\ \A a, b \in Transports : a < b => SumEndOK(e.ts, a, b)
  /\ e.restarts = 1 =>
       /\ ToSet(e.dlv) \subseteq ToSet(e.sent) /\ Cardinality(ToSet(e.dlv)) = Len(e.dlv) /\ e.de <= e.al
  /\ UNCHANGED <<vars, mode, sent, dset, lp>>

Reset(e) ==
  /\ e.op = "reset" /\ e.lim = MemLimit
  /\ queue' = [c \in Conns |-> <<>>] /\ lay' = [c \in Conns |-> <<>>]
  /\ oP' = [c \in Conns |-> 0] /\ oN' = [c \in Conns |-> 0] /\ oAck' = [c \in Conns |-> {}]
  /\ iP' = [c \in Conns |-> 0] /\ iN' = [c \in Conns |-> 0] /\ iRcv' = [c \in Conns |-> {}]
  /\ dlv' = [c \in Conns |-> <<>>] /\ iTot' = [c \in Conns |-> 0] /\ req' = [c \in Conns |-> 0]
  /\ kP' = [c \in Conns |-> 0] /\ kS' = [c \in Conns |-> {}]
  /\ mem' = [t \in Transports |-> 0] /\ waitQ' = [t \in Transports |-> <<>>]
  /\ net' = [t \in Transports |-> <<>>] /\ hdrQ' = [t \in Transports |-> <<>>]
  /\ hdrPass' = [t \in Transports |-> 0]
  /\ pend' = [c \in Conns |-> {}] /\ ak' = [c \in Conns |-> 0] /\ forceNk' = [c \in Conns |-> FALSE]
  /\ nmsg' = 0 /\ faults' = 0
  /\ mode' = e.mode /\ sent' = {} /\ dset' = {}
  /\ lp' = [x \in Ends |-> NoProj]

TNext ==
  /\ l <= Len(Trace)
  /\ l' = l + 1
  \* i is a bound constant: priming an expression over e must not move to the next event
  /\ \E i \in {l} : LET e == Trace[i] IN Reset(e) \/ Summary(e) \/ Strict(e) \/ Loose(e)

TSpec == TInit /\ [][TNext]_tvars

Accepted ==
  LET d == TLCGet("stats").diameter IN
  IF d - 1 = Len(Trace) THEN TRUE
  ELSE PrintT(ToJson(<<"@@", [rejected |-> d]>>)) /\ FALSE
=============================================================================
