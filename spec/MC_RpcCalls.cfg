CONSTANTS
  Clients = {"c1", "c2"}
  CallIds = @CALLS@
  NC1 = @NC1@
  OwnerOf <- MCOwnerOf
  Take <- MCTake
  MaxWorkers = @WORKERS@
  MemLimit = @MEMLIMIT@
  CtlTake = 1
  AllowOrphans = @ORPH@
  AllowBodyDeadline = @BODYDL@
  MaxCuts = @CUTS@
  MaxProxy = @PROXY@
  MaxCloses = @CLOSES@
  TmoCalls = @TMO@
  FFCalls = @FF@
  CancelCalls = @CANCEL@
  Outs = @OUTS@
  AllowShutdown = @SHUTDOWN@
  GenMode = @GEN@
INIT MCInit
NEXT MCNext
VIEW View
INVARIANTS TypeOK AtMostOnce OwnOutcome InFlightOK WriteQOK SlotOK WorkerBound MemBound WaitingNotDropped Emit
PROPERTIES OnlyKnownFinish DoneIsFinal
CHECK_DEADLOCK FALSE
