--------------------------- MODULE TraceTLSyntax ---------------------------
(***************************************************************************)
(* Trace validation (code -> spec) for the TL1 concrete syntax, stateless   *)
(* parallel form.  Every recorded event is one combinator as the REAL       *)
(* parser returned it (neutral AST), together with the canonical form the   *)
(* real code hashed, the text the real printer wrote, the effective tag     *)
(* and the line of the canonical listing.  EventOK: these are exactly what  *)
(* Canon / PrintComb / ListingLine of TLSyntax prescribe for that AST, and  *)
(* the AST is one the grammar can derive (WellFormed).  The CRC32 over the  *)
(* validated canonical text is compared by the harness.                     *)
(***************************************************************************)
EXTENDS TLSyntax

CONSTANTS CheckPrint, CheckCanon,
          Documented     \* TRUE: the canonical form of the specification; FALSE: the "as coded" variant (classification only)

Trace == ndJsonDeserialize("trace.ndjson")

VARIABLE i
Init == i \in 1..Len(Trace)
Next == UNCHANGED i

RECURSIVE WfType(_), WfField(_)
WfArg(a) == \/ a.ar # <<>> /\ a.t = <<>> /\ ArithOK(a.ar)
            \/ a.ar = <<>> /\ Len(a.t) = 1 /\ WfType(a.t[1])
WfType(t) == /\ t.nm # ""
             /\ (t.nm = "#" => ~t.b /\ t.ns = "" /\ t.as = <<>>)
             /\ \A k \in 1..Len(t.as) : WfArg(t.as[k])
WfField(f) == /\ Len(f.m) <= 1
              /\ (f.m # <<>> => f.m[1].n # "" /\ f.m[1].bit[1] <= 65535)
              /\ \/ f.rep = <<>> /\ Len(f.t) = 1 /\ WfType(f.t[1])
                 \/ f.t = <<>> /\ Len(f.rep) = 1
                    /\ LET r == f.rep[1] IN
                       /\ r.sk \in {"none", "name", "ar"}
                       /\ (r.sk = "name" => r.sn # "" /\ r.sa = <<>>)
                       /\ (r.sk = "ar" => r.sn = "" /\ r.sa # <<>> /\ ArithOK(r.sa))
                       /\ (r.sk = "none" => r.sn = "" /\ r.sa = <<>>)
                       /\ \A k \in 1..Len(r.body) : WfField(r.body[k])
WfComb(c) == /\ c.nm # ""
             /\ (c.bi => c.fs = <<>>)
             /\ \A k \in 1..Len(c.fs) : WfField(c.fs[k])
             /\ IF c.fn THEN Len(c.res) = 1 /\ WfType(c.res[1]) /\ c.dnm = "" /\ c.da = <<>> /\ ~c.bi
                ELSE c.res = <<>> /\ c.dnm # ""

EventOK ==
  LET e == Trace[i] IN
  e.ev = "comb" =>
    /\ WfComb(e.ast)
    /\ (e.ast.tag # "" => e.crc = e.ast.tag)                 \* explicit tags verbatim
    /\ (CheckCanon => /\ Join(CanonV(e.ast, Documented), " ") = e.canon
                      /\ ListingLineV(e.ast, e.crc, Documented) = e.listing)
    /\ (CheckPrint => PrintComb(e.ast) = e.print)
=============================================================================
