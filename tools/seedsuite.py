#!/usr/bin/env python3
"""Confirm that the seeded changes pass the repository's own test suite.

Patches touching disjoint files are applied together in one scratch worktree of
/repo HEAD and the suite (the command of /root/.vp/BASELINE.json: go test -vet=off
-count=1 ./...) is run once per group; a failing group is bisected into single
patches. Result: /verif/seeded/SUITE.md and 'existing-suite:' lines in result.txt.
"""
import os, re, subprocess, sys, glob, json

SEEDED = "/verif/seeded"
ENV = dict(os.environ, GOFLAGS="-mod=mod", GOPROXY="off")
for k in ("GOTOOLCHAIN", "GOSUMDB"):
    ENV.pop(k, None)


def files_of(patch):
    return set(re.findall(r"^diff --git a/(\S+) ", open(patch).read(), re.M))


def run_suite(names, tag):
    wt = f"/tmp/seedsuite-{tag}"
    subprocess.run(["git", "-C", "/repo", "worktree", "remove", "--force", wt], capture_output=True)
    subprocess.run(["git", "-C", "/repo", "worktree", "add", "--detach", wt, "HEAD"], capture_output=True, check=True)
    try:
        for n in names:
            r = subprocess.run(["git", "-C", wt, "apply", f"{SEEDED}/{n}/patch.diff"], capture_output=True, text=True)
            if r.returncode != 0:
                return False, f"apply of {n} failed: {r.stderr[:200]}"
        r = subprocess.run("go build ./... && go test -vet=off -count=1 -timeout 25m ./... 2>&1 | grep -v 'no test files'",
                           shell=True, cwd=wt, env=ENV, capture_output=True, text=True)
        out = r.stdout + r.stderr
        bad = [l for l in out.splitlines() if l.startswith("FAIL") or l.startswith("--- FAIL") or "build failed" in l]
        return (len(bad) == 0 and "ok " in out), "\n".join(bad[:8])
    finally:
        subprocess.run(["git", "-C", "/repo", "worktree", "remove", "--force", wt], capture_output=True)


def main():
    names = sorted(os.path.basename(os.path.dirname(p)) for p in glob.glob(f"{SEEDED}/*/patch.diff"))
    if len(sys.argv) > 1:
        names = [n for n in names if any(n.startswith(a) for a in sys.argv[1:])]
    groups = []
    for n in names:
        fs = files_of(f"{SEEDED}/{n}/patch.diff")
        for g in groups:
            if not (g["files"] & fs) and len(g["names"]) < 12:
                g["names"].append(n)
                g["files"] |= fs
                break
        else:
            groups.append({"names": [n], "files": set(fs)})
    verdict = {}
    lines = ["# Existing test suite with the seeded changes applied", "",
             "Command: `go build ./... && go test -vet=off -count=1 ./...` in a scratch worktree of /repo HEAD "
             f"({subprocess.run(['git','-C','/repo','rev-parse','--short','HEAD'],capture_output=True,text=True).stdout.strip()}).",
             "Patches touching disjoint files are applied together; a failing group is re-run patch by patch.", ""]
    for i, g in enumerate(groups):
        ok, info = run_suite(g["names"], f"g{i}")
        print(f"group {i}: {g['names']} -> {'pass' if ok else 'FAIL'}", flush=True)
        if ok:
            for n in g["names"]:
                verdict[n] = "pass (group %d)" % i
        else:
            for n in g["names"]:
                ok1, info1 = run_suite([n], f"s{i}")
                verdict[n] = "pass (alone)" if ok1 else "FAIL: " + info1.replace("\n", " | ")[:300]
                print(f"  {n}: {verdict[n]}", flush=True)
    lines += ["| seeded change | existing suite |", "|---|---|"]
    for n in names:
        lines.append(f"| {n} | {verdict[n]} |")
        res = f"{SEEDED}/{n}/result.txt"
        old = [l for l in open(res).read().splitlines() if not l.startswith("existing-suite:")] if os.path.exists(res) else []
        open(res, "w").write("\n".join(old + [f"existing-suite: {verdict[n]}"]) + "\n")
    mode = "a" if len(sys.argv) > 1 and os.path.exists(f"{SEEDED}/SUITE.md") else "w"
    open(f"{SEEDED}/SUITE.md", mode).write("\n".join(lines) + "\n")


if __name__ == "__main__":
    main()
