#!/bin/sh
# seedtest.sh <mutant dir> <name> : confirm a seeded change and run the checks against it.
#  1. applies patch.diff in a scratch worktree of /repo HEAD, builds, runs the repository's tests
#  2. runs the demonstration against the patched tree (must fail) and against /repo (must pass), when it has a run.sh
#  3. runs ./check <Cnn> quick with VERIF_REPO pointing at the patched tree for each property given in $3..
#  4. stores everything under /verif/seeded/<name>/
src="$1"; name="$2"; shift; shift
out=/verif/seeded/$name
wt=/tmp/seedwt-$name
export GOFLAGS=-mod=mod GOPROXY=off
mkdir -p "$out"
cp "$src/patch.diff" "$out/patch.diff"
rm -rf "$out/demo"; cp -r "$src/demo" "$out/demo" 2>/dev/null
git -C /repo worktree remove --force "$wt" >/dev/null 2>&1
git -C /repo worktree add --detach "$wt" HEAD >/dev/null 2>&1 || { echo "worktree failed"; exit 2; }
res="$out/result.txt"; : > "$res"
if ! git -C "$wt" apply "$out/patch.diff" 2>>"$res"; then echo "apply: FAILED" >> "$res"; git -C /repo worktree remove --force "$wt"; cat "$res"; exit 3; fi
echo "apply: ok" >> "$res"
if (cd "$wt" && go build ./... ) >>"$res" 2>&1; then echo "build: ok" >> "$res"; else echo "build: FAILED" >> "$res"; fi
if [ -z "$SKIP_SUITE" ]; then
  if (cd "$wt" && go test -vet=off -count=1 ./... ) > "$out/suite.log" 2>&1; then echo "existing-suite: pass" >> "$res"; else echo "existing-suite: FAIL ($(grep -c '^FAIL\|^--- FAIL' "$out/suite.log") lines)" >> "$res"; fi
  grep '^FAIL\|^--- FAIL' "$out/suite.log" | head -5 >> "$res"
fi
if [ -x "$out/demo/run.sh" ]; then
  d1=$(mktemp -d /tmp/seeddemoXXXX); cp -r "$out/demo/." "$d1/"
  if (cd "$d1" && ./run.sh "$wt") > "$out/demo-patched.log" 2>&1 && ! grep -q '^FAIL\|^--- FAIL\|^panic:' "$out/demo-patched.log"; then echo "demo-on-patched: PASSES (unexpected)" >> "$res"; else echo "demo-on-patched: fails (expected)" >> "$res"; fi
  d2=$(mktemp -d /tmp/seeddemoXXXX); cp -r "$out/demo/." "$d2/"
  if (cd "$d2" && ./run.sh /repo) > "$out/demo-unchanged.log" 2>&1 && ! grep -q '^FAIL\|^--- FAIL\|^panic:' "$out/demo-unchanged.log"; then echo "demo-on-unchanged: passes (expected)" >> "$res"; else echo "demo-on-unchanged: FAILS (unexpected)" >> "$res"; fi
  rm -rf "$d1" "$d2"
else
  echo "demo: no run.sh (see demo/RUN.md)" >> "$res"
fi
for id in "$@"; do
  VERIF_REPO="$wt" /verif/check "$id" quick > "$out/check-$id.log" 2>&1; rc=$?
  echo "check $id: exit=$rc $(grep -m1 '^VIOLATION' "$out/check-$id.log" | cut -c1-120)" >> "$res"
  grep -m2 '  detail:' "$out/check-$id.log" | cut -c1-300 >> "$res"
done
git -C /repo worktree remove --force "$wt" >/dev/null 2>&1
rm -rf "/tmp/verif-mut-out-$(basename $wt)"
cat "$res"
