#!/usr/bin/env python3
"""Assemble /verif/MANIFEST.json from harness/checks/*/manifest.frag.json and tools/manifest.base.json."""
import json, glob, os
root = os.path.dirname(os.path.dirname(os.path.abspath(__file__)))
base = json.load(open(os.path.join(root, "tools", "manifest.base.json")))
props = [json.loads(l)["id"] for l in open(os.path.join(root, "properties.jsonl"))]
checks = {}
for f in sorted(glob.glob(os.path.join(root, "harness", "checks", "*", "manifest.frag.json"))):
    for ch in json.load(open(f)):
        pid = ch["property_id"]
        ch.setdefault("quick_cmd", f"./check {pid} quick")
        ch.setdefault("thorough_cmd", f"./check {pid} thorough")
        ch.setdefault("evidence_file", f"/verif/evidence/{pid}.json")
        ch.setdefault("replay_cmd_template", f"./check {pid} quick --replay {{path}}")
        ch.setdefault("engine", "vcheck")
        checks[pid] = ch
na = {e["property_id"]: e for e in base.get("not_applicable", [])}
out = dict(base)
out["checks"] = [checks[p] for p in props if p in checks]
out["not_applicable"] = []
for p in props:
    if p in checks:
        continue
    out["not_applicable"].append(na.get(p, {"property_id": p, "reason": "not yet covered by the specification and a conformance binding (work in progress; see DESIGN.md section 7)"}))
for e in out.get("engines", []):
    e["serves_properties"] = [p for p in props if p in checks]
json.dump(out, open(os.path.join(root, "MANIFEST.json"), "w"), indent=1)
print("checks:", len(out["checks"]), "not_applicable:", len(out["not_applicable"]))
