#!/bin/sh
# $1 = list file with lines "dir name checks..."
while read -r dir name checks; do
  [ -z "$dir" ] && continue
  echo "=== $name"; /verif/tools/seedtest.sh $dir $name $checks
done < "$1"
