#!/usr/bin/env python3
"""Build seeded/<id>/meta.json (from the author's meta + our confirmation run) and seeded/SUMMARY.md."""
import json, os, re, glob
root = '/verif/seeded'
suite = {}
sp = root + '/SUITE.md'
if os.path.exists(sp):
    for m in re.finditer(r'^\| (M\d-C\d+-\d) \| (.*?) \|$', open(sp).read(), re.M):
        suite[m.group(1)] = m.group(2)
src = {'M7': '/tmp/mutout/M7', 'M1': '/tmp/mutout/M1', 'M2': '/tmp/mutout/M2', 'M3': '/tmp/mutout/M3', 'M4': '/tmp/mutout/M4', 'M5': '/tmp/mutout/M5', 'M6': '/tmp/mutout/M6'}
rows = []
for d in sorted(glob.glob(root + '/*/')):
    name = os.path.basename(d.rstrip('/'))
    res = os.path.join(d, 'result.txt')
    if not os.path.exists(res):
        continue
    g, rest = name.split('-', 1)
    author = {}
    ap = os.path.join(src.get(g, ''), rest, 'meta.json')
    if os.path.exists(os.path.join(d, 'agent-meta.json')):
        author = json.load(open(os.path.join(d, 'agent-meta.json')))
    elif os.path.exists(ap):
        try:
            author = json.load(open(ap))
        except Exception:
            author = {}
    elif os.path.exists(os.path.join(d, 'meta.json')):
        author = json.load(open(os.path.join(d, 'meta.json')))
    txt = open(res).read()
    dc = os.path.join(d, 'demo-confirm.txt')
    if os.path.exists(dc) and 'demo-on-patched' not in txt:
        txt += open(dc).read()
    checks = {}
    for m in re.finditer(r'^check (C\d+): exit=(\d+)', txt, re.M):
        checks[m.group(1)] = int(m.group(2))
    caught = [c for c, rc in checks.items() if rc == 1]
    note = ''
    if os.path.exists(os.path.join(d, 'NOTE.md')):
        note = open(os.path.join(d, 'NOTE.md')).read().strip()
    meta = {
        'property': author.get('property', rest.split('-')[0]),
        'what': author.get('what', ''),
        'needs': author.get('needs', ''),
        'author_existing_tests': author.get('existing_tests', ''),
        'confirmed': {
            'applies_and_builds': 'apply: ok' in txt and 'build: ok' in txt,
            'existing_suite': suite.get(name, 'pass' if 'existing-suite: pass' in txt else ('fail' if 'existing-suite: FAIL' in txt else 'not run by me; author: ' + str(author.get('existing_tests', ''))[:160])),
            'demo_fails_with_patch': 'demo-on-patched: fails' in txt if 'demo-on-patched' in txt else 'manual demo, see demo/RUN.md',
            'demo_passes_without': 'demo-on-unchanged: passes' in txt if 'demo-on-unchanged' in txt else 'manual demo, see demo/RUN.md',
            'ran': 'tools/seedsuite.py (repository suite on the patched tree, patches with disjoint files grouped); tools/seedtest.sh: git apply in a scratch worktree of /repo HEAD, go build ./..., demo/run.sh (or tools/seeddemo.py for demonstrations given as an in-package Go test / main.go) on patched and unchanged tree, VERIF_REPO=<worktree> ./check <id> quick',
        },
        'checks_run': checks,
        'caught_by': caught,
        'note': note,
    }
    json.dump(meta, open(os.path.join(d, 'meta.json'), 'w'), indent=1)
    rows.append((name, meta))
with open(os.path.join(root, 'SUMMARY.md'), 'w') as f:
    f.write('# Seeded changes (written by independent sub-agents that saw only the property text)\n\n')
    f.write('| id | property | defect | needs | existing suite | checks run (exit) | caught by |\n|---|---|---|---|---|---|---|\n')
    for name, m in rows:
        what = (m['what'] or '').replace('\n', ' ').replace('|', '/')[:220]
        needs = (m['needs'] or '').replace('\n', ' ').replace('|', '/')[:140]
        cr = ', '.join(f'{c}:{rc}' for c, rc in m['checks_run'].items())
        f.write(f"| {name} | {m['property']} | {what} | {needs} | {str(m['confirmed']['existing_suite'])[:40]} | {cr} | {', '.join(m['caught_by']) or ('see note: ' + m['note'][:160] if m['note'] else '**missed**')} |\n")
print(len(rows), 'seeded changes;', sum(1 for _, m in rows if m['caught_by'] or m['note']), 'caught')
