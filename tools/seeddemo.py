#!/usr/bin/env python3
"""Run the demonstrations that come without run.sh (an in-package Go test or a main.go, described in
demo/RUN.md) against a patched and an unpatched scratch worktree of /repo HEAD.
Writes seeded/<id>/demo-confirm.txt: 'demo-on-patched: fails|PASSES' / 'demo-on-unchanged: passes|FAILS'."""
import os, re, subprocess, sys, glob, shutil

SEEDED = "/verif/seeded"
ENV = dict(os.environ, GOFLAGS="-mod=mod", GOPROXY="off")
for k in ("GOTOOLCHAIN", "GOSUMDB"):
    ENV.pop(k, None)


def sh(cmd, cwd, timeout=1500):
    try:
        r = subprocess.run(cmd, shell=True, cwd=cwd, env=ENV, capture_output=True, text=True, timeout=timeout)
        return r.returncode, r.stdout + r.stderr
    except subprocess.TimeoutExpired as e:
        return 124, "timeout\n" + str(e.stdout or "")


def worktree(tag, patch=None):
    wt = f"/tmp/seeddemo-{tag}"
    subprocess.run(["git", "-C", "/repo", "worktree", "remove", "--force", wt], capture_output=True)
    subprocess.run(["git", "-C", "/repo", "worktree", "add", "--detach", wt, "HEAD"], capture_output=True, check=True)
    if patch:
        subprocess.run(["git", "-C", wt, "apply", patch], check=True)
    return wt


def run_demo(name, wt):
    demo = f"{SEEDED}/{name}/demo"
    runmd = open(f"{demo}/RUN.md").read() if os.path.exists(f"{demo}/RUN.md") else ""
    tests = glob.glob(f"{demo}/*_test.go")
    if tests:
        m = re.search(r"cp \S*_test\.go\s+(\S+)", runmd)
        if not m:
            return None, "no cp line in RUN.md"
        dest = re.sub(r"^(\$TREE/|\$\{TREE\}/|<tree>/|<worktree>/|\$T/|\./)", "", m.group(1)).strip("/")
        m2 = re.search(r"-run\s+'?\"?\^?([A-Za-z0-9_|]+)\$?'?\"?", runmd)
        run = m2.group(1) if m2 else "."
        copied = []
        for t in tests:
            shutil.copy(t, os.path.join(wt, dest, os.path.basename(t)))
            copied.append(os.path.join(wt, dest, os.path.basename(t)))
        for extra in glob.glob(f"{demo}/testdata*"):
            pass
        rc, out = sh(f"go test -vet=off -count=1 -run '{run}' ./{dest}/", wt)
        for c in copied:
            os.remove(c)
        return rc == 0 and "FAIL" not in out, out
    if os.path.exists(f"{demo}/main.go"):
        d = f"/tmp/seeddemo-run-{name}"
        shutil.rmtree(d, ignore_errors=True)
        shutil.copytree(demo, d)
        rc, out = sh(f"go run main.go {wt}", d)
        shutil.rmtree(d, ignore_errors=True)
        return rc == 0, out
    return None, "no runnable demonstration found"


def main():
    names = sorted(os.path.basename(os.path.dirname(p)) for p in glob.glob(f"{SEEDED}/*/patch.diff"))
    if len(sys.argv) > 1:
        names = [n for n in names if any(n.startswith(a) for a in sys.argv[1:])]
    clean = worktree("clean")
    for n in names:
        if os.path.exists(f"{SEEDED}/{n}/demo/run.sh"):
            continue
        try:
            wt = worktree("p", f"{SEEDED}/{n}/patch.diff")
        except Exception as e:
            print(n, "apply failed", e, flush=True)
            continue
        okp, outp = run_demo(n, wt)
        oku, outu = run_demo(n, clean)
        subprocess.run(["git", "-C", clean, "checkout", "--", "."], capture_output=True)
        subprocess.run(["git", "-C", clean, "clean", "-fdq"], capture_output=True)
        lines = []
        lines.append("demo-on-patched: " + ("not runnable: " + outp[:100] if okp is None else ("PASSES (unexpected)" if okp else "fails (expected)")))
        lines.append("demo-on-unchanged: " + ("not runnable: " + outu[:100] if oku is None else ("passes (expected)" if oku else "FAILS (unexpected)")))
        open(f"{SEEDED}/{n}/demo-confirm.txt", "w").write("\n".join(lines) + "\n")
        open(f"{SEEDED}/{n}/demo-patched.log", "w").write((outp or "")[-6000:])
        open(f"{SEEDED}/{n}/demo-unchanged.log", "w").write((outu or "")[-6000:])
        print(n, "|", lines[0], "|", lines[1], flush=True)
        subprocess.run(["git", "-C", "/repo", "worktree", "remove", "--force", wt], capture_output=True)
    subprocess.run(["git", "-C", "/repo", "worktree", "remove", "--force", clean], capture_output=True)


if __name__ == "__main__":
    main()
