#!/usr/bin/env python3-vt
import json, jsonschema, glob, sys
ok = True
jsonschema.validate(json.load(open('/verif/MANIFEST.json')), json.load(open('/root/.vp/MANIFEST.schema.json')))
sch = json.load(open('/root/.vp/EVIDENCE.schema.json'))
for f in sorted(glob.glob('/verif/evidence/*.json')):
    try:
        jsonschema.validate(json.load(open(f)), sch)
    except Exception as e:
        ok = False
        print("INVALID", f, str(e)[:300])
print("valid" if ok else "INVALID")
sys.exit(0 if ok else 1)
