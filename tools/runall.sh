#!/bin/sh
# run every registered check of a tier sequentially; summary on stdout
tier="${1:-quick}"
cd /verif
for id in $(python3 -c "import json;print(' '.join(c['property_id'] for c in json.load(open('MANIFEST.json'))['checks']))"); do
  t0=$(date +%s)
  out=$(./check $id $tier 2>/dev/null | grep "^OK\|^VIOLATION\|^KNOWN" | cut -c1-160 | head -4 | tr '\n' '|')
  rc=$?
  echo "$id $(( $(date +%s) - t0 ))s $out"
done
