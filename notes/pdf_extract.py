import re,zlib,sys
exec(open('x.py').read().split("print(len(objs)")[0])
out=[]
N=rb'(-?[\d.]+)'
for n in sorted(objs):
    o=objs[n]; s=stream(o)
    if not s or b'BT' not in s or b'begincmap' in s: continue
    cur={}; key=None; cmy=0; afterTm=False
    pat=re.compile(rb'/(\S+) [\d.]+ Tf|\[((?:\\.|[^\]])*?)\]\s*TJ|\(((?:\\.|[^\\)])*)\)\s*Tj|<([0-9A-Fa-f]+)>\s*Tj|'+N+rb' '+N+rb' T[dD]|'+N+b' '+N+b' '+N+b' '+N+b' '+N+b' '+N+rb' (Tm|cm)|(BT)',re.S)
    def dec(h):
        w=4 if cur and max(cur)>255 else 2
        return ''.join(cur.get(int(h[i:i+w],16),'?') for i in range(0,len(h),w))
    for tok in pat.finditer(s):
        if tok.group(1): cur=fontname.get(tok.group(1),{})
        elif tok.group(2) is not None:
            for p in re.finditer(rb'<([0-9A-Fa-f]+)>|\(((?:\\.|[^\\)])*)\)',tok.group(2)):
                if p.group(1): out.append(dec(p.group(1).decode()))
                else:
                    b=re.sub(rb'\\(.)',lambda m:m.group(1),p.group(2))
                    out.append(''.join(cur.get(ch,chr(ch)) for ch in b))
        elif tok.group(3) is not None:
            b=re.sub(rb'\\(.)',lambda m:m.group(1),tok.group(3))
            out.append(''.join(cur.get(ch,chr(ch)) for ch in b))
        elif tok.group(4): out.append(dec(tok.group(4).decode()))
        elif tok.group(5) is not None:
            if afterTm:
                k=(cmy,float(tok.group(6)))
                if k!=key: out.append('\n')
                key=k; afterTm=False
        elif tok.group(14): out.append(' ')
        elif tok.group(13)==b'Tm': afterTm=True
        elif tok.group(13)==b'cm': cmy=float(tok.group(12))
    out.append('\n=====PAGE=====\n')
print(''.join(out))
