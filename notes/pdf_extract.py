#!/usr/bin/env python3
"""Minimal PDF text extractor (no dependencies) used to read docs/TLPrimer.pdf and
docs/TL2Primer.pdf in a sandbox without poppler.  Usage:

    python3 pdf_extract.py /repo/docs/TL2Primer.pdf [--word-spaces] > out.txt

--word-spaces inserts a space at every BT operator (needed for TLPrimer.pdf, where
each word is its own text object and spaces are not encoded as glyphs).
"""
import re
import sys
import zlib


def main():
    path = sys.argv[1]
    word_spaces = "--word-spaces" in sys.argv[2:]
    data = open(path, "rb").read()
    objs = {}
    for m in re.finditer(rb"(\d+) 0 obj(.*?)endobj", data, re.S):
        objs[int(m.group(1))] = m.group(2)

    def stream(o):
        m = re.search(rb"stream\r?\n(.*?)\r?\nendstream", o, re.S)
        if not m:
            return None
        s = m.group(1)
        if b"FlateDecode" in o:
            try:
                s = zlib.decompress(s)
            except Exception:
                try:
                    s = zlib.decompressobj().decompress(s)
                except Exception:
                    return None
        return s

    # ToUnicode CMaps
    cmaps = {}
    for n, o in objs.items():
        s = stream(o)
        if s and b"begincmap" in s:
            mp = {}
            for blk in re.finditer(rb"beginbfchar(.*?)endbfchar", s, re.S):
                for a, b in re.findall(rb"<([0-9A-Fa-f]+)>\s*<([0-9A-Fa-f]+)>", blk.group(1)):
                    mp[int(a, 16)] = bytes.fromhex(b.decode()).decode("utf-16-be", "ignore")
            for blk in re.finditer(rb"beginbfrange(.*?)endbfrange", s, re.S):
                for a, b, c in re.findall(
                    rb"<([0-9A-Fa-f]+)>\s*<([0-9A-Fa-f]+)>\s*<([0-9A-Fa-f]+)>", blk.group(1)
                ):
                    a, b, c = int(a, 16), int(b, 16), int(c, 16)
                    for i in range(a, b + 1):
                        mp[i] = chr(c + i - a)
            cmaps[n] = mp
    fontobj = {}
    for n, o in objs.items():
        m = re.search(rb"/ToUnicode (\d+) 0 R", o)
        if m:
            fontobj[n] = int(m.group(1))
    fontname = {}
    for n, o in objs.items():
        for m in re.finditer(rb"/(F\d+|TT\d+|[A-Za-z0-9_+]+) (\d+) 0 R", o):
            k = int(m.group(2))
            if k in fontobj:
                fontname[m.group(1)] = cmaps.get(fontobj[k], {})

    out = []
    N = rb"(-?[\d.]+)"
    pat = re.compile(
        rb"/(\S+) [\d.]+ Tf|\[((?:\\.|[^\]])*?)\]\s*TJ|\(((?:\\.|[^\\)])*)\)\s*Tj|<([0-9A-Fa-f]+)>\s*Tj|"
        + N + rb" " + N + rb" T[dD]|"
        + N + b" " + N + b" " + N + b" " + N + b" " + N + b" " + N + rb" (Tm|cm)|(BT)",
        re.S,
    )
    for n in sorted(objs):
        s = stream(objs[n])
        if not s or b"BT" not in s or b"begincmap" in s:
            continue
        cur = {}
        key = None
        cmy = 0.0
        after_tm = False

        def dec(h):
            w = 4 if cur and max(cur) > 255 else 2
            return "".join(cur.get(int(h[i:i + w], 16), "?") for i in range(0, len(h), w))

        for tok in pat.finditer(s):
            if tok.group(1):
                cur = fontname.get(tok.group(1), {})
            elif tok.group(2) is not None:
                for p in re.finditer(rb"<([0-9A-Fa-f]+)>|\(((?:\\.|[^\\)])*)\)", tok.group(2)):
                    if p.group(1):
                        out.append(dec(p.group(1).decode()))
                    else:
                        b = re.sub(rb"\\(.)", lambda m: m.group(1), p.group(2))
                        out.append("".join(cur.get(ch, chr(ch)) for ch in b))
            elif tok.group(3) is not None:
                b = re.sub(rb"\\(.)", lambda m: m.group(1), tok.group(3))
                out.append("".join(cur.get(ch, chr(ch)) for ch in b))
            elif tok.group(4):
                out.append(dec(tok.group(4).decode()))
            elif tok.group(5) is not None:
                if after_tm:
                    k = (cmy, float(tok.group(6)))
                    if k != key:
                        out.append("\n")
                    key = k
                    after_tm = False
            elif tok.group(14):
                if word_spaces:
                    out.append(" ")
            elif tok.group(13) == b"Tm":
                after_tm = True
            elif tok.group(13) == b"cm":
                cmy = float(tok.group(12))
        out.append("\n=====PAGE=====\n")
    text = "".join(out)
    if word_spaces:
        text = re.sub(r"  +", " ", text)
    sys.stdout.write(text)


if __name__ == "__main__":
    main()
